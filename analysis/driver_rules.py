"""CFG rules on CMDDriver::run (engine P): the instruction loop, its index variable and the State dispatch."""
import re
import mir as M


def find_parse_call(drv, suffix="Interpreter::parse"):
    for bi, t in M.calls_in(drv):
        if (t[1].get("def") or "").endswith(suffix):
            return bi, t
    return None, None


def origin_local(drv, bi, tmp, depth=8):
    """follow `tmp = copy X` backwards through straight-line predecessors"""
    cfg = M.CFG(drv)
    b = bi
    for _ in range(depth):
        for s in reversed(drv["blocks"][b]["stmts"]):
            if s[0] == "assign" and s[1]["l"] == tmp and not s[1]["p"]:
                if s[2][0] == "use" and s[2][1][0] in ("copy", "move") and not s[2][1][1]["p"]:
                    return s[2][1][1]["l"]
                return tmp
        preds = cfg.pred[b]
        if len(preds) != 1:
            return tmp
        b = preds[0]
    return tmp


def idx_local(drv):
    """the local passed as `current` (argument after &self) to Interpreter::parse"""
    bi, t = find_parse_call(drv)
    if t is None or len(t[2]) < 2:
        return None
    a = t[2][1]
    if a[0] not in ("copy", "move") or a[1]["p"]:
        return None
    return origin_local(drv, bi, a[1]["l"])


def state_switch(ctx, drv):
    """block that switches on the discriminant of the State returned by Interpreter::parse: {variant name: target}"""
    P = ctx.program
    sadt = P.find_adt("util::interpreter_util::State")
    names = {i: v["name"] for i, v in enumerate(sadt["variants"])}
    for bi, bb in enumerate(drv["blocks"]):
        t = M.term(bb)
        if t[0] != "switch":
            continue
        # discriminant read of a State-typed place in this block
        for s in bb["stmts"]:
            if s[0] == "assign" and s[2][0] == "disc" and re.search(r"(^|::)State$", s[2][1]["ty"]):
                arms = {names.get(v, v): tgt for v, tgt in t[2]}
                return bi, arms, t[3]
    return None, None, None


def assigns_local(drv, blocks, local):
    out = []
    for b in blocks:
        for s in drv["blocks"][b]["stmts"]:
            if s[0] == "assign" and s[1]["l"] == local and not s[1]["p"]:
                out.append((b, s))
    return out


def repeat_arm_rule(ctx, drv):
    """REPEAT re-issues the same instruction: the loop is re-entered with the index variable unchanged"""
    from symterm import show
    L = LoopModel(ctx, drv)
    if not L.ok:
        return None, L.why or "loop structure not recognised"
    arm = L.arms.get("REPEAT")
    if arm is None:
        return None, "no REPEAT outcome"
    if arm["next"] is None:
        return False, "from the REPEAT arm the interpreter call is never reached again (no re-issue)"
    if arm["next"] == L.cur:
        return True, f"REPEAT returns to Interpreter::parse with the index variable _{L.idx} unchanged"
    if has_unknown(arm["next"]):
        return None, f"index after REPEAT not in closed form: {show(arm['next'])}"
    return False, f"the index variable is changed on the way from the REPEAT arm back to the interpreter call (becomes {show(arm['next'])})"


def has_unknown(t):
    from symterm import subterms
    return any(x[0] in ("phi", "unk") for x in subterms(t))


def def_of(fn, bi, local, depth=10):
    """the defining statement (block, stmt) of `local` found by walking backwards through straight-line predecessors"""
    cfg = M.CFG(fn)
    b = bi
    for _ in range(depth):
        for s in reversed(fn["blocks"][b]["stmts"]):
            if s[0] == "assign" and s[1]["l"] == local and not s[1]["p"]:
                return b, s
        preds = cfg.pred[b]
        if len(preds) != 1:
            return None, None
        b = preds[0]
        # a call terminator defining the local
        t = M.term(fn["blocks"][b])
        if t[0] == "call" and t[3]["l"] == local and not t[3]["p"]:
            return b, ("call", t)
    return None, None


def trace_value(fn, bi, operand, depth=12):
    """follow copies/moves of an operand back to its producing rvalue or call: returns a list describing the chain"""
    chain = []
    cur_b = bi
    op = operand
    for _ in range(depth):
        if op[0] == "const":
            chain.append(("const", op[1]))
            return chain
        pl = op[1]
        if pl["p"]:
            chain.append(("place", pl))
            if len(pl["p"]) == 1 and pl["p"][0] != "deref" and pl["p"][0][0] == "f" and pl["p"][0][1] == 0:
                b, s = def_of(fn, cur_b, pl["l"])
                if s is not None and s[0] != "call" and s[2][0] == "bin" and s[2][1].endswith("O"):
                    chain.append(("rvalue", s[2]))
                    return chain
            # deref of a local: continue with that local
            if pl["p"] == ["deref"]:
                b, s = def_of(fn, cur_b, pl["l"])
                if s is None:
                    return chain
                if s[0] == "call":
                    chain.append(("call", s[1][1].get("def") or "indirect", s[1]))
                    return chain
                cur_b = b
                rv = s[2]
                if rv[0] in ("use",):
                    op = rv[1]
                    continue
                chain.append(("rvalue", rv))
                return chain
            return chain
        b, s = def_of(fn, cur_b, pl["l"])
        if s is None:
            chain.append(("local", pl["l"]))
            return chain
        if s[0] == "call":
            chain.append(("call", s[1][1].get("def") or "indirect", s[1]))
            return chain
        cur_b = b
        rv = s[2]
        if rv[0] == "use":
            op = rv[1]
            continue
        if rv[0] == "ref":
            chain.append(("ref", rv[1]))
            if not rv[1]["p"] or rv[1]["p"] == ["deref"]:
                op = ["copy", {"l": rv[1]["l"], "p": [], "ty": rv[1]["ty"]}]  # (re)borrow: same value
                continue
            return chain
        chain.append(("rvalue", rv))
        if rv[0] == "bin" and rv[1] in ("AddO", "SubO", "Add", "Sub"):
            return chain
        if rv[0] == "use":
            continue
        return chain
    return chain


def deep_trace(fn, bi, operand, through=("deref", "clone", "borrow", "as_ref", "as_str"), limit=6):
    """trace_value, continuing through calls that only re-borrow / copy their first argument"""
    chain = []
    b, op = bi, operand
    for _ in range(limit):
        ch = trace_value(fn, b, op)
        chain.extend(ch)
        if ch and ch[-1][0] == "call" and any(ch[-1][1].endswith(x) for x in through):
            t = ch[-1][2]
            b = next((i for i, tt in M.calls_in(fn) if tt is t), None)
            if b is None or not t[2]:
                break
            op = t[2][0]
            continue
        break
    return chain


# ----------------------------------------------------------------------------------------------------------------
# term-based model of the execution loop (symterm.SymFlow): independent of how the source spells the bookkeeping

class LoopModel:
    """One trip around the instruction loop of CMDDriver::run, specialised per State variant.

    cur      term of the `current` argument of Interpreter::parse, in terms of the values at the loop head
    line     term of the line argument
    result   term of the call's result
    arms     {variant name: dict(next=term of the index variable at the next loop head or None if the loop is
             never re-entered, returns=[blocks], exits=[blocks calling process::exit], blocks=set)}
    init     term of the index variable when the loop is first entered (in terms of the function entry)"""

    def __init__(self, ctx, drv):
        from symterm import SymFlow, strip
        from cfgtools import natural_loops
        self.ok = False
        self.why = ""
        self.drv = drv
        P = ctx.program
        F = self.F = SymFlow(drv)
        pb, pt = find_parse_call(drv)
        if pb is None:
            self.why = "no call to Interpreter::parse"
            return
        self.pb, self.pt = pb, pt
        loops = [(h, body) for h, body in natural_loops(F.cfg).items() if pb in body]
        if not loops:
            self.why = "Interpreter::parse is not called in a loop"
            return
        self.head, self.body = min(loops, key=lambda x: len(x[1]))
        h = self.head
        entry, arr, edges = F.run(h, stop={h})
        if pb not in entry:
            self.why = "interpreter call not reached from the loop head"
            return
        args = F.call_args(entry[pb], pb)
        self.args = args
        self.cur = args[1] if len(args) > 1 else None
        self.line = args[-1]
        self.result = ("call", pt[1].get("def") or "indirect", tuple(args), pb)
        C = self.result
        if self.cur is None or self.cur[0] != "init":
            self.why = "the `current` argument is not a loop variable"
            return
        self.idx = self.cur[1]
        sadt = P.find_adt("util::interpreter_util::State")
        self.state = ("proj", ("proj", C, ("down", 0)), ("f", 0))
        self.arms = {}
        for vi, v in enumerate(sadt["variants"]):
            def decide(t, b, vi=vi):
                if t[0] == "disc":
                    x = strip(t[1])
                    if x == self.state:
                        return vi
                    if x == C:
                        return 0
                return None
            e2, a2, ed2 = F.run(h, stop={h}, decide=decide)
            after = set()
            # blocks executed after the interpreter returned (for "can this outcome stop the program")
            st = [M.term(drv["blocks"][pb])[4]]
            while st:
                b = st.pop()
                if b in after or b not in e2 or b == h:
                    continue
                after.add(b)
                st.extend(s for (x, s) in ed2 if x == b)
            rets = [b for b in after if M.term(drv["blocks"][b])[0] == "return"]
            exits = [b for b in after if M.term(drv["blocks"][b])[0] == "call" and (M.term(drv["blocks"][b])[1].get("def") or "").endswith("process::exit")]
            nxt = a2[h].get(self.idx, ("init", self.idx)) if h in a2 else None
            self.arms[v["name"]] = {"next": nxt, "returns": rets, "exits": exits, "blocks": after, "variant": vi, "entry": e2}
        # first entry of the loop
        e0, a0, _ = F.run(0, stop={h})
        self.init = a0[h].get(self.idx, ("init", self.idx)) if h in a0 else None
        self.entry0 = e0
        self.ok = True

    def payload(self, variant_index, field=0):
        return ("proj", ("proj", self.state, ("down", variant_index)), ("f", field))


def local_closure(P, fn, which="bin", limit=40):
    """fn plus the local functions and closures it (transitively) calls or constructs"""
    seen, out, st = set(), [], [fn]
    while st and len(out) < limit:
        f = st.pop()
        if f["name"] in seen:
            continue
        seen.add(f["name"])
        out.append(f)
        for bb in f["blocks"]:
            for s in bb["stmts"]:
                if s[0] == "assign" and s[2][0] == "agg" and s[2][1].get("k") == "closure":
                    g = P.by_name.get((which, s[2][1].get("name"))) or P.by_name.get(("lib", s[2][1].get("name")))
                    if g:
                        st.append(g)
            t = M.term(bb)
            if t[0] == "call":
                g = P.fns.get(t[1].get("id"))
                if g is not None and t[1].get("local"):
                    st.append(g)
    return out


def looks_up_start(P, g):
    """does local function g (or a function/closure it uses) look the constant "start" up in a map?"""
    from symterm import SymFlow, strip
    for f2 in local_closure(P, g):
        F2 = SymFlow(f2)
        try:
            e2, _, _ = F2.run(0)
        except RuntimeError:
            continue
        for b2, t2 in M.calls_in(f2):
            d = t2[1].get("def") or ""
            if b2 in e2 and d.endswith("::get") and "HashMap" in d:
                if any(strip(a) == ("str", '"start"') for a in F2.call_args(e2[b2], b2)[1:]):
                    return True
    return False


def undispatched_interpreter_calls(ctx, drv):
    """Every call of the interpreter executes one instruction (or one iteration of a repeated one) and answers with what
    has to happen next.  The driver has one place where that answer is dispatched over all State variants.  A further
    call site from which that dispatch cannot be reached before the loop is re-entered executes an instruction and
    drops its outcome (NEXT, JMP, HALT, INT, PRINT are then never acted on; the line is issued again).
    -> list of (block, line) of such call sites; None if the structure is not recognised"""
    sites = [(bi, t) for bi, t in M.calls_in(drv) if (t[1].get("def") or "").endswith("Interpreter::parse")]
    if not sites:
        return None
    sw, arms, other = state_switch(ctx, drv)
    if sw is None:
        return None
    cfg = M.CFG(drv)
    main = [bi for bi, t in sites if sw in cfg.reachable_from(t[4], avoid={bi}) and not any(o != bi and o in cfg.reachable_from(t[4], avoid={sw}) and sw in cfg.reachable_from(o) and False for o, _ in sites)]
    out = []
    for bi, t in sites:
        if t[4] is None:
            continue
        others = {o for o, _ in sites if o != bi}
        # the dispatch is reached from this call without executing another instruction first
        if sw in cfg.reachable_from(t[4], avoid=others | {bi}):
            continue
        out.append((bi, drv["blocks"][bi]["term"].get("line")))
    return out
