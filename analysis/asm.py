"""Grammar-level use of engine A: bottom-up values of nonterminals (string templates) and the effect paths
of every production, for any of the four grammars."""
from astev import Evaluator, Str, Num, Opt, Res, Tup, Top, Unit, UNIT, Obj, Path, Overflow, tmpl_concat, p_var


class GramEval:
    def __init__(self, gram):
        self.G = gram  # units.Gram
        self.g = gram.g
        self.actions = self.g["actions"]
        self.unknown = []
        self._ntval = {}
        self._busy = set()
        self._paths = {}
        self.ev = Evaluator(gram.which, self.unknown)
        self.ev.set_helpers(self.g.get("helpers") or [])

    # ---- symbol values
    def term_value(self, name):
        if name.startswith('"'):
            return Str.lit(name[1:-1])
        if name.startswith("r#"):
            return Str.hole("tok", name[3:-2])
        return Str.hole("tok", name)

    def nt_value(self, nt):
        if nt in self._ntval:
            return self._ntval[nt]
        if nt in self._busy:
            return Top("recursive:" + nt)
        self._busy.add(nt)
        vals = []
        for k, p in enumerate(self.G.productions(nt)):
            for path in self.prod_paths(nt, k):
                if path.ret is not None:
                    vals.append(path.ret)
        self._busy.discard(nt)
        v = self.join(vals)
        # a nonterminal whose every alternative hands up one of its own lookaround positions (`<p:@L> "}" => p`):
        # remember which, so that a rule about positions can see through the wrapper
        looks = {getattr(x.ok if isinstance(x, Res) else x, "look", None) for x in vals}
        if isinstance(v, Num) and len(looks) == 1 and None not in looks and len(self.G.productions(nt)) == 1:
            v.look_in = (nt, next(iter(looks)))
        self._ntval[nt] = v
        return v

    def join(self, vals):
        # unwrap fallible results: the value of the symbol is the Ok payload
        flat = []
        for v in vals:
            if isinstance(v, Res):
                if v.ok is not None:
                    flat.append(v.ok)
            else:
                flat.append(v)
        if not flat:
            return UNIT
        if all(isinstance(v, Str) for v in flat):
            t = set()
            for v in flat:
                t |= v.t
            r = Str(t)
            lps = [getattr(v, "lenpoly", None) for v in flat]
            if lps and all(lp is not None and lp == lps[0] for lp in lps):
                r.lenpoly = lps[0]
            return r
        if all(isinstance(v, Num) for v in flat):
            tys = set(v.ty for v in flat)
            return Num(flat[0].ty if len(tys) == 1 else "/".join(sorted(tys)), p_var("n"))
        if all(isinstance(v, Unit) for v in flat):
            return UNIT
        if all(isinstance(v, Opt) for v in flat):
            somes = [v.some for v in flat if v.some is not None]
            return Opt(self.join(somes) if somes else None, any(v.none for v in flat))
        return Top("mixed")

    # ---- productions
    def prod_paths(self, nt, k):
        key = (nt, k)
        if key in self._paths:
            return self._paths[key]
        p = self.G.productions(nt)[k]
        syms = p["symbols"]
        vals = []
        for s in syms:
            if s["t"] == "term":
                vals.append(self.term_value(s["name"]))
            else:
                vals.append(self.nt_value(s["name"]))
        try:
            paths = self.eval_action(p["action"], vals, 0, [Path()], syms)
        except Overflow:
            self.unknown.append(("template-overflow", nt, k))
            q = Path()
            q.ret = Top("overflow")
            paths = [q]
        self._paths[key] = paths
        return paths

    def prod_paths_with(self, nt, k, override):
        """like prod_paths but with the values of some RHS symbols replaced: override = {symbol index: Val}"""
        p = self.G.productions(nt)[k]
        syms = p["symbols"]
        vals = []
        for i, s in enumerate(syms):
            if i in override:
                vals.append(override[i])
            elif s["t"] == "term":
                vals.append(self.term_value(s["name"]))
            else:
                vals.append(self.nt_value(s["name"]))
        try:
            return self.eval_action(p["action"], vals, 0, [Path()], syms)
        except Overflow:
            return []

    def eval_action(self, idx, vals, base_pos, paths, syms):
        """evaluate action idx on `vals` (values of the symbols it consumes), continuing each of `paths`"""
        a = self.actions[idx]
        if a["kind"] in ("lookahead", "lookbehind"):
            for q in paths:
                v = Num("usize", p_var(("@L" if a["kind"] == "lookahead" else "@R") + str(base_pos)))
                v.look = ("L" if a["kind"] == "lookahead" else "R", base_pos)
                q.ret = v
            return paths
        if a["kind"] == "inline":
            # evaluate nested actions in symbol order, then the main action
            cur = [(q, []) for q in paths]
            pos = 0
            for s in a["symbols"]:
                if "orig" in s:
                    v = vals[pos]
                    cur = [(q, args + [v]) for q, args in cur]
                    pos += 1
                else:
                    n = len(s["syms"])
                    sub_vals = vals[pos:pos + n]
                    new = []
                    for q, args in cur:
                        q2 = q.fork()
                        q2.returned = False
                        res = self.eval_action(s["inl"], sub_vals, base_pos + pos, [q2], syms)
                        for r in res:
                            rv = r.ret
                            if isinstance(rv, Res):
                                if rv.ok is None:
                                    # nested action only errs on this path: the production ends here
                                    r.returned = True
                                    new.append((r, None))
                                    continue
                                rv = rv.ok
                            r.returned = False
                            new.append((r, args + [rv]))
                    cur = new
                    pos += n
            outs = []
            for q, args in cur:
                if args is None:
                    outs.append(q)
                    continue
                outs.extend(self.eval_action(a["action"], args, base_pos, [q], syms))
            return outs
        # user action
        outs = []
        for q in paths:
            env = {}
            for name, v in zip(a["arg_names"], vals):
                if name and name != "_":
                    if isinstance(v, Num) and getattr(v, "look", None) is None:
                        li = getattr(v, "look_in", None)
                        v = Num(v.ty, p_var(name), v.src)  # polynomials are written over the action's own argument names
                        if li is not None:
                            v.look_in = li
                    if isinstance(v, Str) and getattr(v, "lenpoly", None) is not None:
                        # the length of a text handed up by a nonterminal, over this action's own names: the single token
                        # length it is made of becomes len(<name>~); anything else is not tracked
                        lv = {x for mono in v.lenpoly for x in mono}
                        v2 = Str(v.t)
                        if len(lv) == 1 and next(iter(lv)).startswith("len("):
                            old_ = next(iter(lv))
                            v2.lenpoly = {tuple(f"len({name}~)" if x == old_ else x for x in mono): c for mono, c in v.lenpoly.items()}
                        v = v2
                    env[name] = v
            q2 = q.fork()
            q2.env = env
            q2.returned = False
            res = self.ev.block(a["ast"], [q2])
            for r in res:
                r.action = idx
                r.returned = True
            outs.extend(res)
        return outs


def key_presence(c, mapname):
    """what a path condition says about a key being in the map `mapname`: True (present), False (absent), None.
    Recognised: `map.get(k)` matched against Some/None (match, if let, `?`, is_some/is_none) and contains_key/contains"""
    desc, truth = c[0], bool(c[1])
    neg = desc.lstrip().startswith("!")
    if f"{mapname}.contains_key" in desc or f"{mapname}.contains(" in desc:
        return truth != neg
    if f"{mapname}.get" in desc:
        if "matches Some" in desc or ".is_some()" in desc:
            return truth != neg
        if "matches None" in desc or ".is_none()" in desc:
            return not (truth != neg)
        m = __import__("re").search(r"matches _ \[not ([^\]]*)\]", desc)
        if m and truth:
            if "Some" in m.group(1) and "None" not in m.group(1):
                return False
            if "None" in m.group(1) and "Some" not in m.group(1):
                return True
    return None


def action_and_helper_asts(G, p, depth=3):
    """the syntax tree of a production's action together with those of the helper functions it (transitively) calls"""
    helpers = {}
    for h in G.g.get("helpers") or []:
        if h.get("kind") == "const":
            # a named constant the action refers to: its initialiser is part of what the action computes with
            helpers.setdefault(h["name"], []).append(dict(h, body=h["expr"]))
            continue
        helpers.setdefault(h["name"], []).append(h)
    out, seen = [], set()

    def add(ast, d):
        out.append(ast)
        if d <= 0:
            return

        def walk(n):
            if isinstance(n, dict):
                name = None
                if n.get("k") == "mcall":
                    name = n.get("m")
                elif n.get("k") == "call" and isinstance(n.get("f"), dict) and n["f"].get("k") == "path":
                    name = n["f"]["segs"][-1]
                elif n.get("k") == "path" and n.get("segs") and n["segs"][-1].isupper():
                    name = n["segs"][-1]  # SCREAMING_CASE path: a constant
                if name and name in helpers and name not in seen and len(helpers[name]) == 1:
                    seen.add(name)
                    add(helpers[name][0]["body"], d - 1)
                for v in n.values():
                    walk(v)
            elif isinstance(n, list):
                for v in n:
                    walk(v)
        walk(ast)
    add(G.main_user_action(p["action"]).get("ast"), depth)
    return out


def spelling_table(E, nt, depth=0):
    """[(terminal spelling, emitted text or None, production)] of a keyword table: a nonterminal whose alternatives are
    single terminals with a text value, possibly reached through wrapper alternatives that consist of one nonterminal
    and pass its value on (`<m:inner> => m.to_owned()`).  The values are computed by the action evaluator, so
    `"jb".to_owned()`, `String::from("jb")` and a `&'static str` handed through a wrapper are the same."""
    out = []
    G = E.G
    if depth > 4 or nt not in G.nts:
        return out
    for k, p in enumerate(G.productions(nt)):
        terms = [s["name"].strip('"') for s in p["symbols"] if s["t"] == "term"]
        nts = [(i, s["name"]) for i, s in enumerate(p["symbols"]) if s["t"] == "nt"]

        def lit(v):
            if isinstance(v, Res):
                v = v.ok
            if isinstance(v, Str) and len(v.t) == 1:
                t = next(iter(v.t))
                if all(part[0] == "lit" for part in t):
                    return "".join(part[1] for part in t)
            return None
        if len(terms) == 1 and not nts:
            vals = {lit(q.ret) for q in E.prod_paths(nt, k)}
            out.append((terms[0], vals.pop() if len(vals) == 1 else None, p))
        elif len(nts) == 1 and not terms:
            i, inner = nts[0]
            for sp, val, p_in in spelling_table(E, inner, depth + 1):
                if val is None:
                    out.append((sp, None, p_in))
                    continue
                vals = {lit(q.ret) for q in E.prod_paths_with(nt, k, {i: Str.lit(val)})}
                out.append((sp, vals.pop() if len(vals) == 1 else None, p_in))
        else:
            out.append((None, None, p))
    return out


def expand_templates(strval, limit=400000):
    """all templates of a Str value as lists of parts"""
    return list(strval.t)
