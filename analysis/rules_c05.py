"""C05 — MOV/XCHG/PUSH/POP/LAHF/SAHF/PUSHF/POPF/XLAT as exact bit-level data movement; SP arithmetic and
stack cell addresses as affine forms; no flag write."""
import itertools
import re
from domains import Lin, lin_equal_witness
from insn import is_copy, report_aborts, FBIT
from units import run_interp_production, addr_atom
from program import arch_index
from absint import Unsupported

MBm = 1 << 20
EXPL = (
    "Data movement is decided exactly in the per-bit copy domain: for every production of mov / xchg / push / pop / "
    "singleton_data_transfer and every register alternative, each destination bit after the action must be a copy of "
    "the architecturally corresponding source bit of the state before it, every other register and the flag word must "
    "be bit-for-bit unchanged, and only the operand's cells may be written. R1 MOV, R2 XCHG (both directions complete), "
    "R3 PUSH/POP/PUSHF/POPF: SP' = SP -/+ 2 mod 2^16 (affine), cells (16*SS+SP') mod 2^20 and +1 hold the low and high "
    "byte, POP is the inverse copy; R4 LAHF/SAHF; R5 XLAT address form and AL copy; R6 no flag change except POPF/SAHF; "
    "R7 abort sites. Interleaved push/pop histories follow by induction from these per-instruction facts and are not "
    "re-checked."
)

BYTE_REGS = {"ah": ("ax", 8), "al": ("ax", 0), "bh": ("bx", 8), "bl": ("bx", 0), "ch": ("cx", 8), "cl": ("cx", 0), "dh": ("dx", 8), "dl": ("dx", 0)}


def reg_alternatives(G, nt):
    """[(choice dict relative path->k, terminal spelling)] for register nonterminals"""
    out = []
    for k, p in enumerate(G.productions(nt)):
        terms = [s["name"].strip('"') for s in p["symbols"] if s["t"] == "term"]
        subs = [(i, s["name"]) for i, s in enumerate(p["symbols"]) if s["t"] == "nt"]
        if terms and not subs:
            out.append(({(): k}, terms[0]))
        elif subs:
            for i, sub in subs:
                for ch, t in reg_alternatives(G, sub):
                    d = {(): k}
                    for pth, kk in ch.items():
                        d[(i,) + pth] = kk
                    out.append((d, t))
    return out


class Operand:
    def __init__(self, pos, kind, width):
        self.pos = pos
        self.kind = kind  # reg | mem | imm
        self.width = width
        self.reg = None  # spelling for reg
        self.atom = None  # address atom / number atom


def src_bits(op, I):
    """bit provenance of an operand's value in the state before the instruction"""
    if op.kind == "reg":
        if op.reg in BYTE_REGS:
            w, lo = BYTE_REGS[op.reg]
            return [("c", w, lo + i) for i in range(8)]
        return [("c", op.reg, i) for i in range(16)]
    if op.kind == "mem":
        base = op.atom
        if op.width == 8:
            return [("c", f"mem[{base}]", i) for i in range(8)]
        return [("c", f"mem[{base}]", i) for i in range(8)] + [("c", f"mem[(({base} + 1) mod 2^20)]", i) for i in range(8)]
    if op.kind == "imm":
        return [("c", op.atom, i) for i in range(op.width)]
    return None


def read_after(op, regs, mem):
    if op.kind == "reg":
        if op.reg in BYTE_REGS:
            w, lo = BYTE_REGS[op.reg]
            return list(regs[w].bits[lo:lo + 8])
        return list(regs[op.reg].bits)
    if op.kind == "mem":
        base = op.atom
        c0 = mem.cells.get(base)
        if c0 is None:
            return None
        if op.width == 8:
            return list(c0[1].bits)
        c1 = mem.cells.get(f"(({base} + 1) mod 2^20)")
        if c1 is None:
            return None
        return list(c0[1].bits) + list(c1[1].bits)
    return None


def machine(P, st):
    ai = arch_index(P)
    vm = st.frames[0]["vm"]
    regs = {n: vm.fields[0].fields[i] for n, i in ai.items()}
    return regs, st.frames[0]["mem"]


def classify(G, p, depth=0):
    """operand descriptors of a production from its RHS.  A nonterminal that is none of the known operand classes but
    whose every alternative is exactly one operand (an operand-class nonterminal such as `push_operand = reg | "word" mem |
    label`) becomes one descriptor of kind "alt" that enumerate_runs expands alternative by alternative."""
    ops = []
    names = [s["name"] for s in p["symbols"]]
    known = ("byte_reg", "reg_cl", "word_reg", "seg_reg", "pop_reg", '"cs"', "memory_addr", "byte_label", "word_label", "s_byte_num", "u_byte_num", "s_word_num", "u_word_num")
    try:
        from rules_c04 import address_wrappers
        wrappers = address_wrappers(G)
    except Exception:  # noqa
        wrappers = {}
    for i, n in enumerate(names):
        if n not in known and wrappers.get(n) in ({"w"}, {"b"}):
            # a nonterminal that only hands an address on (`stack_mem = "word" memory_addr | word_label`): it is replaced as a
            # whole by one arbitrary address in the abstract run (units.address_overrides)
            o = Operand(i, "mem", 16 if wrappers[n] == {"w"} else 8)
            o.atom = f"m{i}"
            ops.append(o)
            continue
        if n not in known and p["symbols"][i]["t"] == "nt" and depth < 2 and n in G.nts:
            alts = []
            for j, q in enumerate(G.productions(n)):
                sub = classify(G, q, depth + 1)
                if len(sub) != 1 or sub[0].kind == "alt":
                    alts = None
                    break
                alts.append((j, sub[0]))
            if alts:
                o = Operand(i, "alt", 0)
                o.alts = alts
                ops.append(o)
            continue
        if n in ("byte_reg", "reg_cl"):
            ops.append(Operand(i, "reg", 8))
        elif n in ("word_reg", "seg_reg", "pop_reg"):
            ops.append(Operand(i, "reg", 16))
        elif n == '"cs"':
            o = Operand(i, "reg", 16)
            o.reg = "cs"
            ops.append(o)
        elif n == "memory_addr":
            w = 8 if (i > 0 and names[i - 1] == '"byte"') else 16
            o = Operand(i, "mem", w)
            o.atom = f"m{i}"
            ops.append(o)
        elif n == "byte_label":
            o = Operand(i, "mem", 8)
            o.atom = f"lb{i}"
            ops.append(o)
        elif n == "word_label":
            o = Operand(i, "mem", 16)
            o.atom = f"lw{i}"
            ops.append(o)
        elif n in ("s_byte_num", "u_byte_num"):
            ops.append(Operand(i, "imm", 8))
        elif n in ("s_word_num", "u_word_num"):
            ops.append(Operand(i, "imm", 16))
    return ops


def enumerate_runs(ctx, G, nt, k, ops):
    """yield (I, st, ops-with-concrete-registers) for every register alternative of the operands"""
    p = G.productions(nt)[k]
    names = [s["name"] for s in p["symbols"]]
    per = []
    for o in ops:
        if o.kind == "alt":
            lst = []
            for j, sub in o.alts:
                subname = G.productions(names[o.pos])[j]["symbols"][sub.pos]["name"]
                if sub.kind == "reg" and sub.reg is None:
                    for ch, t in reg_alternatives(G, subname):
                        o2 = Operand(o.pos, "reg", sub.width)
                        o2.reg = t
                        d = {(): j}
                        d.update({(sub.pos,) + pth: kk for pth, kk in ch.items()})
                        lst.append((o2, d, t))
                else:
                    o2 = Operand(o.pos, sub.kind, sub.width)
                    o2.reg = sub.reg
                    if sub.kind == "mem":
                        o2.atom = re.sub(r"\d+$", "", sub.atom) + f"{o.pos}{sub.pos}"
                    lst.append((o2, {(): j}, o2.reg))
            per.append(lst)
        elif o.kind == "reg" and o.reg is None:
            per.append([(o, ch, t) for ch, t in reg_alternatives(G, names[o.pos])])
        elif o.kind == "imm":
            alts = []
            for ch, t in reg_alternatives(G, names[o.pos]):
                alts.append((o, ch, None))
            per.append(alts or [(o, {}, None)])
        else:
            per.append([(o, {}, None)])
    from units import address_overrides
    ov = address_overrides(G)
    for combo in itertools.product(*per):
        choice = {}
        cur = []
        for (o, ch, t) in combo:
            o2 = Operand(o.pos, o.kind, o.width)
            o2.reg = t if o.kind == "reg" and o.reg is None else o.reg
            o2.atom = o.atom
            for pth, kk in ch.items():
                choice[(o.pos,) + pth] = kk
            cur.append(o2)

        def chooser(path, n, prods, choice=choice):
            return choice.get(tuple(path))
        I, st, v, r = run_interp_production(ctx, nt, k, chooser, overrides=ov)
        for o2 in cur:
            if o2.kind == "imm":
                cands = sorted(a for a in I.atoms if a.startswith(f"num:tok{o2.pos}"))
                o2.atom = cands[0] if cands else None
        yield I, st, cur


def frame_ok(regs, mem, allowed_regs, allowed_cells, allow_flag=False):
    bad = [n for n, x in regs.items() if n not in allowed_regs and not is_copy(x, n) and not (n == "flag" and allow_flag)]
    cells = [kk for kk, (idx, val) in mem.cells.items() if not is_copy(val, "mem[" + kk + "]") and kk not in allowed_cells]
    if mem.havoc is not None:
        cells.append("<havoc>")
    return bad, cells


def cells_of(op):
    if op.kind != "mem":
        return set()
    s = {op.atom}
    if op.width == 16:
        s.add(f"(({op.atom} + 1) mod 2^20)")
    return s


def word_of(op):
    if op.kind != "reg":
        return set()
    return {BYTE_REGS[op.reg][0]} if op.reg in BYTE_REGS else {op.reg}


def run(ctx, chk):
    chk.explanation = EXPL
    chk.assumptions += ["distinct abstract addresses (operand cell vs. stack cell) do not alias",
                        "numbers are arbitrary values of the Rust type the downstream grammar parses them into"]
    P = ctx.program
    G = ctx.gram("interpreter")
    chk.rule("C05.R1", "MOV: destination bits are copies of the source bits, nothing else changes", floor=300)
    chk.rule("C05.R2", "XCHG: both operands receive each other's bits completely", floor=100)
    chk.rule("C05.R3", "PUSH/POP/PUSHF/POPF: SP +/- 2 mod 2^16, cells at (16*SS+SP) mod 2^20, exact copy", floor=29)
    chk.rule("C05.R4", "LAHF/SAHF transfer the low flag byte exactly", floor=2)
    chk.rule("C05.R5", "XLAT loads AL from DS:[BX+AL]", floor=1)
    chk.rule("C05.R6", "no flag changes except POPF/SAHF", floor=300)
    chk.rule("C05.R7", "no abort site in the data-transfer actions", floor=50)
    chk.rule("C05.R8", "PUSH/POP with a memory operand load the whole word before they store (operand and stack slot may overlap)", floor=2)

    # ---- MOV
    for k, p in enumerate(G.productions("mov")):
        label = G.prod_label("mov", k)
        where = f"{G.g['file']}:{p['line']}"
        ops = classify(G, p)
        if len(ops) != 2:
            chk.undecided_("C05.R1", label, f"{len(ops)} operands recognised")
            continue
        n_ok = 0
        for I, st, cur in enumerate_runs(ctx, G, "mov", k, ops):
            dst, src = cur
            regs, mem = machine(P, st)
            want = src_bits(src, I)
            got = read_after(dst, regs, mem)
            unit = f"{label} [{dst.reg or dst.atom},{src.reg or src.atom}]"
            if want is None or got is None:
                chk.violation("C05.R1", label, "destination-not-written", f"{unit}: destination cell/register not written", where)
                continue
            want = want[:len(got)]
            if got != want:
                diff = [i for i, (a, b) in enumerate(zip(got, want)) if a != b]
                chk.violation("C05.R1", label, f"bits-not-copied", f"{unit}: destination bits {diff} are not copies of the corresponding source bits (e.g. bit {diff[0]}: {short(got[diff[0]])}, expected {short(want[diff[0]])})", where)
                continue
            bad, cells = frame_ok(regs, mem, word_of(dst), cells_of(dst))
            # the untouched half of a byte-register destination
            if dst.kind == "reg" and dst.reg in BYTE_REGS:
                w, lo = BYTE_REGS[dst.reg]
                other = [i for i in range(16) if not (lo <= i < lo + 8)]
                if any(regs[w].bits[i] != ("c", w, i) for i in other):
                    bad.append(w + "(other half)")
            if "flag" in bad:
                chk.violation("C05.R6", label, "mov-changes-flags", f"{unit} modifies the flag word", where)
                bad.remove("flag")
            else:
                chk.ok("C05.R6", unit, "flags unchanged")
            if bad or cells:
                chk.violation("C05.R1", label, "writes-beyond-destination", f"{unit} also changes {bad + cells}", where)
            else:
                chk.ok("C05.R1", unit, f"{len(got)} bits copied exactly")
                n_ok += 1
            report_aborts(chk, "C05.R7", unit, [e for e in I.events if "__action" in e.fn], where)

    # ---- XCHG
    for k, p in enumerate(G.productions("xchg")):
        label = G.prod_label("xchg", k)
        where = f"{G.g['file']}:{p['line']}"
        ops = classify(G, p)
        if len(ops) != 2:
            chk.undecided_("C05.R2", label, f"{len(ops)} operands recognised")
            continue
        for I, st, cur in enumerate_runs(ctx, G, "xchg", k, ops):
            a, b = cur
            if a.kind == "reg" and b.kind == "reg" and a.reg == b.reg:
                continue
            regs, mem = machine(P, st)
            unit = f"{label} [{a.reg or a.atom},{b.reg or b.atom}]"
            wa, wb = src_bits(a, I), src_bits(b, I)
            ga, gb = read_after(a, regs, mem), read_after(b, regs, mem)
            # overlapping halves of one word register (xchg al,ah) are still exact copies
            problems = []
            if ga is None or ga != wb[:len(ga)]:
                d = [i for i in range(len(wb)) if ga is None or i >= len(ga) or ga[i] != wb[i]]
                problems.append(f"first operand: bits {d} are not the second operand's bits" + (f" (bit {d[0]} is {short(ga[d[0]])})" if ga and d and d[0] < len(ga) else ""))
            if gb is None or gb != wa[:len(gb)]:
                d = [i for i in range(len(wa)) if gb is None or i >= len(gb) or gb[i] != wa[i]]
                problems.append(f"second operand: bits {d} are not the first operand's bits" + (f" (bit {d[0]} is {short(gb[d[0]])})" if gb and d and d[0] < len(gb) else ""))
            if problems:
                which = "first" if "first operand" in problems[0] else "second"
                chk.violation("C05.R2", label, f"incomplete-swap-{which}", f"{unit}: " + "; ".join(problems), where)
                continue
            bad, cells = frame_ok(regs, mem, word_of(a) | word_of(b), cells_of(a) | cells_of(b))
            if "flag" in bad:
                chk.violation("C05.R6", label, "xchg-changes-flags", f"{unit} modifies the flag word", where)
                bad.remove("flag")
            else:
                chk.ok("C05.R6", unit, "flags unchanged")
            if bad or cells:
                chk.violation("C05.R2", label, "writes-beyond-operands", f"{unit} also changes {bad + cells}", where)
            else:
                chk.ok("C05.R2", unit, "complete swap")
            report_aborts(chk, "C05.R7", unit, [e for e in I.events if "__action" in e.fn], where)

    # ---- PUSH / POP
    sp_dec = Lin.atom("sp").add(Lin(-2)).mod(1 << 16)
    sp_inc = Lin.atom("sp").add(Lin(2)).mod(1 << 16)
    for nt in ("push", "pop"):
        for k, p in enumerate(G.productions(nt)):
            label = G.prod_label(nt, k)
            where = f"{G.g['file']}:{p['line']}"
            ops = classify(G, p)
            if len(ops) != 1:
                chk.undecided_("C05.R3", label, f"{len(ops)} operands recognised")
                continue
            for I, st, cur in enumerate_runs(ctx, G, nt, k, ops):
                o = cur[0]
                regs, mem = machine(P, st)
                stack_rule(chk, I, regs, mem, nt, o, f"{label} [{o.reg or o.atom}]", label, where, sp_dec, sp_inc)
                if o.kind == "mem":
                    from insn import overlap_hazards
                    hz = overlap_hazards(I)
                    if hz:
                        chk.violation("C05.R8", label, "operand-read-after-stack-write" if nt == "push" else "stack-read-after-operand-write",
                                      f"{label}: the byte at {hz[0][1]} is loaded after the byte at {hz[0][0]} was stored; the memory operand and the stack slot can overlap by one byte "
                                      f"({'push word [sp-3]' if nt == 'push' else 'pop word [sp+1]'}), and then the byte loaded is the one just written, not the operand's", where)
                    else:
                        chk.ok("C05.R8", f"{label} [{o.atom}]", "the whole word is loaded before the first store")
                report_aborts(chk, "C05.R7", label, [e for e in I.events if "__action" in e.fn], where)

    # ---- singleton data transfer
    for k, p in enumerate(G.productions("singleton_data_transfer")):
        m = [s["name"].strip('"') for s in p["symbols"] if s["t"] == "term"][0]
        label = m
        where = f"{G.g['file']}:{p['line']}"
        I, st, v, r = run_interp_production(ctx, "singleton_data_transfer", k)
        regs, mem = machine(P, st)
        if m == "lahf":
            ah = list(regs["ax"].bits[8:16])
            want = [("c", "flag", i) for i in range(8)]
            bad, cells = frame_ok(regs, mem, {"ax"}, set())
            if ah != want or any(regs["ax"].bits[i] != ("c", "ax", i) for i in range(8)):
                chk.violation("C05.R4", "lahf", "ah-not-low-flag-byte", "LAHF does not copy FLAGS[0..7] into AH (AL kept)", where)
            elif bad or cells:
                chk.violation("C05.R4", "lahf", "writes-beyond-ah", f"LAHF also changes {bad + cells}", where)
            else:
                chk.ok("C05.R4", "lahf", "AH = FLAGS[0..7], nothing else")
        elif m == "sahf":
            fl = regs["flag"].bits
            want = [("c", "ax", 8 + i) for i in range(8)] + [("c", "flag", i) for i in range(8, 16)]
            bad, cells = frame_ok(regs, mem, {"flag"}, set())
            if list(fl) != want:
                chk.violation("C05.R4", "sahf", "flags-not-ah", "SAHF does not load FLAGS[0..7] from AH keeping FLAGS[8..15]", where)
            elif bad or cells:
                chk.violation("C05.R4", "sahf", "writes-beyond-flags", f"SAHF also changes {bad + cells}", where)
            else:
                chk.ok("C05.R4", "sahf", "FLAGS[0..7] = AH, high byte kept")
        elif m in ("pushf", "popf"):
            o = Operand(0, "reg", 16)
            o.reg = "flag"
            stack_rule(chk, I, regs, mem, "push" if m == "pushf" else "pop", o, m, m, where, sp_dec, sp_inc)
        elif m == "xlat":
            cells = list(mem.cells.items())
            al = list(regs["ax"].bits[:8])
            bad, wr = frame_ok(regs, mem, {"ax"}, set())
            if len(cells) != 1:
                chk.violation("C05.R5", "xlat", "cells", f"XLAT touches {len(cells)} memory cells", where)
            else:
                key, (idx, val) = cells[0]
                want = Lin.atom("ds").scale(16).add(Lin.atom("bx").add(Lin(0, ((("mod", Lin.atom("ax"), 256), 1),))).mod(1 << 16)).mod(MBm)
                if al != [("c", f"mem[{key}]", i) for i in range(8)] or any(regs["ax"].bits[i] != ("c", "ax", i) for i in range(8, 16)):
                    chk.violation("C05.R5", "xlat", "al-not-loaded", "XLAT does not load AL from the addressed byte (AH kept)", where)
                elif bad or wr:
                    chk.violation("C05.R5", "xlat", "writes-beyond-al", f"XLAT also changes {bad + wr}", where)
                elif idx.kind == "int" and idx.aff is not None:
                    verdict, env = lin_equal_witness(idx.aff, want, I.atom_ranges())
                    if verdict == "equal":
                        chk.ok("C05.R5", "xlat", idx.aff.pretty())
                    elif verdict == "differ":
                        chk.violation("C05.R5", "xlat", "address-form", f"XLAT reads {idx.aff.pretty()}, the 8086 reads {want.pretty()}", where,
                                      f"{env}: emulator {hex(idx.aff.eval(env))}, 8086 {hex(want.eval(env))}")
                    else:
                        chk.undecided_("C05.R5", "xlat", "no separating valuation")
                else:
                    chk.undecided_("C05.R5", "xlat", "no exact address form")
        if m not in ("popf", "sahf"):
            if is_copy(regs["flag"], "flag"):
                chk.ok("C05.R6", m, "flags unchanged")
            else:
                chk.violation("C05.R6", m, "changes-flags", f"{m} modifies the flag word", where)
        report_aborts(chk, "C05.R7", m, [e for e in I.events if "__action" in e.fn], where)


def short(b):
    if b in (0, 1):
        return f"const {b}"
    if b[0] == "c":
        return f"{b[1]}[{b[2]}]"
    if b[0] == "n":
        return f"!{b[1]}[{b[2]}]"
    return "f(" + ",".join(sorted(set(a for a, _ in b[1]))) + ")"


def stack_rule(chk, I, regs, mem, kind, o, unit, label, where, sp_dec, sp_inc):
    ranges = I.atom_ranges()
    spv = regs["sp"]
    want_sp = sp_dec if kind == "push" else sp_inc
    pop_sp = (o.kind == "reg" and o.reg == "sp" and kind == "pop")
    if pop_sp:
        # POP SP: the 8086 increments SP and then loads it, so SP ends as the popped word (an exact copy of the
        # two stack cells); checked in the data part below
        verdict, env = "equal", None
    elif spv.aff is None:
        chk.undecided_("C05.R3", unit + ":sp", "no exact form for SP")
        return
    else:
        verdict, env = lin_equal_witness(spv.aff, want_sp, ranges)
    if verdict == "differ":
        chk.violation("C05.R3", label, "sp-update" + (":pop-sp" if (o.kind == "reg" and o.reg == "sp" and kind == "pop") else ""), f"{unit}: SP becomes {spv.aff.pretty()}, expected {want_sp.pretty()}", where, str(env))
        return
    if verdict != "equal":
        chk.undecided_("C05.R3", unit + ":sp", "no separating valuation")
        return
    # stack cell: at the new SP for push, at the old SP for pop
    sp_at = want_sp if kind == "push" else Lin.atom("sp")
    if o.kind == "reg" and o.reg == "sp" and kind == "pop":
        pass
    base = Lin.atom("ss").scale(16).add(sp_at).mod(MBm)
    base1 = base.add(Lin(1)).mod(MBm)
    stack_cells = [(kk, idx, val) for kk, (idx, val) in mem.cells.items() if not (o.kind == "mem" and kk in cells_of(o))]
    if len(stack_cells) != 2:
        chk.violation("C05.R3", label, "stack-cells", f"{unit}: touches {len(stack_cells)} stack cells, expected 2", where)
        return
    found = {}
    for kk, idx, val in stack_cells:
        if idx.kind != "int" or idx.aff is None:
            chk.undecided_("C05.R3", unit + ":cell", "stack cell address has no exact form")
            return
        for nm, w in (("lo", base), ("hi", base1)):
            v2, env = lin_equal_witness(idx.aff, w, ranges)
            if v2 == "equal":
                found[nm] = (kk, val)
    if len(found) != 2:
        kk, idx, val = stack_cells[0]
        v2, env = lin_equal_witness(idx.aff, base, ranges)
        wit = f"{env}: emulator {hex(idx.aff.eval(env))}, 8086 {hex(base.eval(env))}" if env else None
        chk.violation("C05.R3", label, "stack-address", f"{unit}: stack cells at {[c[0] for c in stack_cells]}, the 8086 uses {base.pretty()} and +1", where, wit)
        return
    # data
    if kind == "push":
        want = src_bits(o, I)
        if o.kind == "reg" and o.reg == "sp":
            want = None  # 8086 pushes the decremented SP; value-level, not decided here
        got = list(found["lo"][1].bits) + list(found["hi"][1].bits)
        if want is not None and got != want:
            d = [i for i in range(16) if got[i] != want[i]]
            chk.violation("C05.R3", label, "pushed-bits", f"{unit}: stored bits {d} are not the operand's bits", where)
            return
        allowed_regs = {"sp"}
        allowed_cells = {found["lo"][0], found["hi"][0]}
    else:
        want = [("c", f"mem[{found['lo'][0]}]", i) for i in range(8)] + [("c", f"mem[{found['hi'][0]}]", i) for i in range(8)]
        got = read_after(o, regs, mem)
        if pop_sp and (got is None or got != want):
            chk.violation("C05.R3", label, "sp-update:pop-sp", f"{unit}: SP must end as the popped word (increment first, then load); it ends as {spv!r}", where)
            return
        if got is None or got != want:
            d = [i for i in range(16) if got is None or got[i] != want[i]]
            chk.violation("C05.R3", label, "popped-bits", f"{unit}: destination bits {d} are not the stack word's bits", where)
            return
        allowed_regs = {"sp"} | word_of(o)
        allowed_cells = cells_of(o)
    bad, cells = frame_ok(regs, mem, allowed_regs, allowed_cells, allow_flag=(o.reg == "flag" and kind == "pop"))
    if "flag" in bad:
        chk.violation("C05.R6", label, "changes-flags", f"{unit} modifies the flag word", where)
        bad.remove("flag")
    elif not (o.reg == "flag" and kind == "pop"):
        chk.ok("C05.R6", unit, "flags unchanged")
    if bad or cells:
        chk.violation("C05.R3", label, "writes-beyond", f"{unit} also changes {bad + cells}", where)
    else:
        chk.ok("C05.R3", unit, f"SP {'-' if kind == 'push' else '+'} 2 mod 2^16, cells {found['lo'][0]} / +1, exact copy")
