"""Language-inclusion helpers (engine G service): instantiate string templates and ask the LR(1) tables +
lexer of a downstream grammar (built from the current .lalrpop by tools/gram) whether they are sentences."""
import json
import subprocess
from facts import GRAM, AnalysisIncomplete
from astev import hinfo
import mir as M

NUM_TYPES = {"u8", "u16", "u32", "u64", "usize", "i8", "i16", "i32", "i64", "isize"}


def num_points(ty, thorough=False):
    r = M.type_range(ty)
    if r is None:
        return [0]
    lo, hi = r
    pts = {lo, hi, 0}
    if lo < 0:
        pts |= {-1, 1}
    if thorough:
        pts |= {lo + 1, hi - 1, 9, 10, 99, 100, 255, 256, 65535, 65536, 1048575, 1048576}
    return sorted(p for p in pts if lo <= p <= hi)


def hole_values(part, thorough=False):
    kind = part[1]
    info = hinfo(part)
    if kind == "num":
        ty = info.get("ty", "int")
        if ty not in NUM_TYPES:
            return [("0", {"num": 0, "ty": ty})]
        return [(str(p), {"num": p, "ty": ty}) for p in num_points(ty, thorough)]
    if kind == "tok":
        rx = info.get("v") or ""
        if "print:" in rx or "ascii" in rx or rx.startswith('"'):
            vals = ['""', '"a b,c"', '"[x]:;"']
            return [(v, {"str": v}) for v in vals]
        if rx.startswith("[_a-zA-Z]"):
            return [(v, {"name": v}) for v in (["lbl0", "_a1Z"] if thorough else ["lbl0"])]
        return [("lbl0", {"name": "lbl0"})]
    return [("<" + kind + ">", {"unknown": kind})]


def instantiate(template, thorough=False, cap=64):
    """-> list of (text, [hole instantiation infos]).  quick: all holes at their lowest / at their highest value
    (two lines per template: every boundary of every hole type is still hit); thorough: the full product."""
    if not thorough:
        res = []
        for pick in (0, -1):
            t, hs = "", []
            for part in template:
                if part[0] == "lit":
                    t += part[1]
                else:
                    vals = hole_values(part, False)
                    v, info = vals[pick]
                    hs.append(dict(info, at=len(t), text=v, kind=part[1], hole=hinfo(part)))
                    t += v
            if not res or res[0][0] != t:
                res.append((t, hs))
        return res
    outs = [("", [])]
    for part in template:
        if part[0] == "lit":
            outs = [(t + part[1], hs) for t, hs in outs]
        else:
            vals = hole_values(part, thorough)
            new = []
            for t, hs in outs:
                for v, info in vals:
                    new.append((t + v, hs + [dict(info, at=len(t), text=v, kind=part[1], hole=hinfo(part))]))
            outs = new[:cap] if len(new) > cap else new
    return outs


def parse_lines(gram_path, lines):
    """ask tools/gram: returns list of verdict dicts aligned with lines"""
    if not lines:
        return []
    p = subprocess.run([GRAM, "parse", gram_path], input=json.dumps(lines), stdout=subprocess.PIPE, stderr=subprocess.PIPE, text=True)
    if p.returncode != 0 or not p.stdout.startswith("{"):
        raise AnalysisIncomplete("gram-parse", f"{gram_path}: {p.stdout[-300:]} {p.stderr[-300:]}")
    d = json.loads(p.stdout)
    if "fatal" in d:
        raise AnalysisIncomplete("gram-parse", d["fatal"])
    return d["results"]
