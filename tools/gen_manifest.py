#!/usr/bin/env python3
"""Writes /verif/MANIFEST.json from the table below (single source of truth for the interface)."""
import json
import os

HERE = os.path.dirname(os.path.dirname(os.path.abspath(__file__)))

NOTE_COMMON = ("Trusted base: rustc's MIR of the scratch copy of the working tree (overflow checks on), the vendored "
               "lalrpop 0.19.12 front end (same version as the repo's build-dependency), the oracle tables in "
               "/verif/spec (Intel 8086 manual), hand-written models of std callees, and the assumption that distinct "
               "abstract addresses inside one action do not alias. Only DEFINITE failures, missing required "
               "dependencies, structural negations and exact table mismatches become VIOLATION lines; undecided "
               "obligations are listed in the evidence, not claimed.")

CHECKS = {
    "C01": dict(
        technique="abstract interpretation of MIR (per-bit provenance, intervals, affine closed forms modulo 2^w, predicate provenance of booleans, may-depend sets) + grammar-to-helper table extraction; sibling comparison of the byte and word implementations as expression trees (dropped operand / single differing node)",
        text="Decides structurally, for all operands at once: the flag write-set and definedness of ADD/ADC/SUB/SBB/CMP/INC/DEC/NEG (incl. CF "
             "preservation of INC/DEC), the machine frame (no other register/flag/memory byte), CMP writing no destination, the required "
             "input dependencies of result and of every flag (a missing dependency is a definite defect), byte/word table agreement, "
             "that an immediate reaches the helper with every bit of the destination width, abort freedom of the helpers and actions, and - as closed forms over "
             "the operands - the stored result (R11: affine form equal to the manual's value mod 2^w, per incoming carry) and CF, AF, OF, SF, ZF of ADD/ADC/SUB/SBB/CMP/"
             "INC/DEC (R12: predicate normal forms D>0 / D==0 / xor compared with the manual's definition; a different form comes with a concrete operand "
             "pair; NEG on four operand cells plus the condition of its AF branch), and PF as the even parity of the result's low byte (the parity helper is decided on the bit "
             "domain, where xor-folds are exact linear forms over GF(2)).",
        design="DESIGN.md §6 C01"),
    "C02": dict(
        technique="abstract interpretation of MIR (bit domain exact for logic ops and NOT and, with the count specialised, for every shift and rotate; trace partitioning on the input bits that decide CF/SF/OF; interval abort analysis); sibling fingerprints of byte/word shift and rotate implementations",
        text="Decides: AND/OR/XOR/TEST clear CF/OF exactly and assign SF/ZF/PF on every path; NOT is an exact complement and touches no flag; TEST "
             "stores nothing; count==0 changes neither operand nor flags; no count 0..255 aborts a helper; the `, cl` forms pass exactly CL; required dependencies; shl==sal; "
             "flag frames for count>=1; and exactly, for every count (0..34 and six larger in quick, all 256 in thorough) and every operand at once: the shifted/rotated "
             "value as a permutation of operand bits, CF, SF and OF at count 1, compared with k applications of the manual's single-bit step (R12). "
             "SF, ZF and PF of the logic ops and shifts are tests of the returned value itself (R13: `x == 0`, a top-bit test, a parity helper applied to x). "
             "Does NOT decide TEST's flags beyond their dependencies (it tests a conjunction it does not return).",
        design="DESIGN.md §6 C02"),
}

CHECKS["C03"] = dict(
    technique="abstract interpretation of MIR (interval refinement for the zero test, lossy-narrowing dataflow on Div results, may-depend sets, affine closed forms with uninterpreted mul/div/rem terms, branch-condition recovery for hand-written flag code) + CFG rules on the Err arm and the driver's INT(0) arm; byte-level frames of the adjust instructions (AH/AL dependencies nibble-wise)",
    text="Decides the divide-error protocol (zero test dominates Div/Rem; MIN/-1; every narrowing cast of a quotient lossless or guarded by a dividend "
         "test; Err => nothing modified, action returns INT(0), driver returns), that CF/OF of MUL/IMUL depend on both factors, frames of MUL/DIV and "
         "of AAA..CWD, CBW/CWD sign dependency; and, as closed forms with uninterpreted product / quotient / remainder terms, AX and DX after MUL, IMUL, DIV, IDIV "
         "(R11, structural comparison with the manual; divisions on their Ok paths) and the condition under which MUL/IMUL set CF=OF (R12, the condition of the "
         "helper's flag branch), AAM/AAD as plain arithmetic, and two clauses of the other adjusts (AAA/AAS zero AL's high nibble on every path; DAA/DAS make "
         "their high-digit test on the adjusted AL) and DAA/DAS/AAA/AAS as piecewise functions: the helper's paths are enumerated by forcing its branches, and the "
         "path-wise closed forms of AX and the flags are compared with the manual's definition for every AL, AF, CF and four AH (R14). R12 falls back to a partition on the operands' sign bits when the flag condition goes through a helper that branches on a sign (closed form per partition, compared with the manual's condition on the boundary operands of that partition).",
    design="DESIGN.md §6 C03")

CHECKS["C04"] = dict(
    technique="abstract interpretation of MIR with an affine-with-modulus domain; closed-form comparison against the Intel address form (witness = valuation of the symbols of the two forms); bit domain for register aliasing and lanes; register, segment and address-wrapper nonterminals derived from the grammar (not named)",
    text="Decides, for every alternative of memory_addr (105 register/override/number variants), the label forms and LEA: required register/"
         "segment dependencies (default SS iff BP), equality of the exact address form with (16*seg + offset16) mod 2^20, address < 2^20, exact "
         "byte-register aliasing, word lanes m / m+1 low-first in every interpreter action, LEA touching neither memory nor flags and loading the "
         "offset. Does not decide aliasing of overlapping operands.",
    design="DESIGN.md §6 C04")

CHECKS["C05"] = dict(
    technique="abstract interpretation of MIR in the per-bit copy domain (exact data movement) + affine forms for SP and stack addresses, all register alternatives enumerated; ordering of abstract memory events (load-before-store across possibly aliasing operands)",
    text="Decides exactly, per production and register alternative (456 MOV/XCHG variants, 29 stack variants): every destination bit is a copy of the "
         "corresponding source bit, nothing else changes, no flag changes (except POPF/SAHF); SP' = SP -/+ 2 mod 2^16; stack cells at (16*SS+SP) mod 2^20 "
         "low byte first; LAHF/SAHF; XLAT address form. Interleaved push/pop histories follow by induction and are not re-checked. R8: PUSH/POP with a memory operand load the whole word before the first store (order of the memory events of the abstract run; operands built from different atoms may overlap).",
    design="DESIGN.md §6 C05")

CHECKS["C06"] = dict(
    technique="abstract interpretation of MIR with trace partitioning over the flag bits and three CX classes -> complete truth tables; bit domain for flag accessors; affine CX update; grammar/AST composition with the assembler's spelling table",
    text="Decided completely (finite): the truth table of every interpreter jump/loop predicate (32 flag rows x 3 CX classes) equals the Intel predicate; "
         "FLAG_* positions and get/set/unset_flag exactness; LOOPx decrement CX mod 2^16, JCXZ leaves CX; no flag/register change; every one of the "
         "assembler's source spellings (both cases, synonyms) reaches the Intel predicate of that spelling; taken => JMP(label.map), else NEXT. R8: no abort site in any conditional transfer for every flag word and every CX class (MIR asserts classified during the truth-table runs). Mnemonics are enumerated also through keyword nonterminals.",
    design="DESIGN.md §6 C06")

CHECKS["C07"] = dict(
    technique="abstract interpretation of MIR with DF specialisation and affine address/pointer forms; memory-access and subtraction events classified by pointer dependency; production-level REP protocol with CX classes and ZF partitioning; CFG rule on the driver's REPEAT arm; ordering of abstract memory events; CFG reachability between interpreter call sites and the State dispatch",
    text="Decides: source element at DS:SI and destination element at ES:DI (exact forms, required segment dependency); SI/DI step +/-size mod 2^16 "
         "under DF; word elements use cells p,p+1 in both directions; who may write memory/AL,AX/flags; CMPS/SCAS operand roles; REP protocol (nothing "
         "executes with CX=0, CX-1 and REPEAT otherwise, ZF test of REPE/REPNE); driver re-issues the same index on REPEAT; CF, AF, OF, SF, ZF of CMPS/SCAS as the CMP predicates over the two "
         "elements and PF as the parity of the difference's low byte (R9, closed forms over the memory cells and AX). Does NOT decide overlapping source/destination. R7 also requires that from every call site of the interpreter in the driver the dispatch over the State variants is reached before another instruction is executed (no outcome dropped). R10: word MOVS loads both source bytes before its first store (source and destination may overlap by one byte).",
    design="DESIGN.md §6 C07")

CHECKS["C09"] = dict(
    technique="abort-site census over MIR (Assert terminators with overflow checks on, unwrap/index/panic callees) classified by interval/affine abstract interpretation with attainability (exactness) tracking",
    text="Enumerates every potential abort site reachable from executing an instruction (all interpreter productions, all helpers, int_13/int_21: about "
         "470 sites) and classifies each PROVED / DEFINITE (witness) / UNDECIDED; proves every vm.mem index < 2^20. Only DEFINITE sites are violations; "
         "UNDECIDED ones are listed in the evidence and not claimed. The segment:offset helper is decided path by path (R4): every path's result is below 2^20. Termination of the two service loops is not decided.",
    design="DESIGN.md §6 C09")

CHECKS["C10"] = dict(
    technique="language inclusion: string-template abstract evaluation of every assembler action (syn ASTs) + membership of every instantiated template in the downstream grammars via lalrpop's own LR(1) tables and lexer; structural comparison of guards/constant sets",
    text="Decided completely over the finite shape set: each of the ~39,000 templates the assembler can emit (all mnemonic/register/override alternatives "
         "expanded, numeric holes at the boundaries of their Rust type; the full product in the thorough tier) is a sentence of the grammar it is destined "
         "for (interpreter, and printer for print lines; data loader for data lines; the driver-appended hlt), numeric holes fit the downstream conversion, "
         "no identifier/keyword clash, every fallible downstream action has an upstream guarantee, no downstream error return depends on the machine state (which no upstream "
         "check could exclude), the driver has an arm for every INT.",
    design="DESIGN.md §6 C10")

CHECKS["C11"] = dict(
    technique="grammar sibling cross-check (case pairs) + action-AST abstract evaluation with marker substitution for operand order/width keywords; regex-class vs radix agreement; bounded exhaustive evaluation of the extracted comment pattern",
    text="Decides: every upper/lower-case literal has its sibling alternative with identical templates and effects; digit class/radix/prefix/type agreement "
         "of all numeric alternatives; synonym folding stays inside Intel classes; operands appear in the emitted line in source order (XCHG exception); "
         "byte/word operands keep their width keyword; one line per instruction. Does NOT decide `;` comment stripping or white-space handling (run-time "
         "lexer/regex behaviour). R8 (bounded): the comment pattern and its replacement, read as constants from the driver's MIR, are evaluated (the pattern, not the program) on every comment body of up to 4 characters over {a, space, \", ', ;} in four line contexts; undecided when the driver strips comments without a constant pattern or the pattern uses constructs outside the reference engine's common subset.",
    design="DESIGN.md §6 C11")

CHECKS["C12"] = dict(
    technique="action-AST evaluation to counter polynomials on both sides of the assembler/loader interface (paired through the loader's LR tables), bit-domain lanes, overflow-site classification, CFG dominance rule for DS := 0; slice-length polynomials carried through wrapping nonterminals; helper methods of Context inlined",
    text="Decides per directive form: assembler counter increment == loader counter increment == bytes stored (as polynomials in the directive's numbers "
         "and string length); labels bound to the counter before the increment; dw lanes; u16 counter / loop-bound overflow sites (DEFINITE = a segment "
         "beyond 64 KiB aborts or wraps instead of being diagnosed); DS := 0 dominates the first executed instruction; OFFSET returns the bound value. Does "
         "NOT decide the whole memory image over directive sequences (composition argued) nor 'zero elsewhere'. R2 also requires every accepting path of a labelled directive to bind the label as DATA. Not decided: a silent wrap of the assembler's counter through wrapping arithmetic (seed C12-r6 is a recorded miss).",
    design="DESIGN.md §6 C12")

CHECKS["C13"] = dict(
    technique="path enumeration over the macro_use / macro_def action ASTs: ordering of guard effects (contains < insert < nested parse < remove) on every path, rejecting branches, structural search for a depth bound",
    text="Decides the recursion-guard protocol on every path, rejection of unknown macros, re-raising of expansion errors at the use site, agreement of the "
         "placeholder syntax between definition and use, that every kind of argument is substituted in a spelling the assembler accepts again with the same "
         "value (numbers included), and that nothing bounds the input-driven native recursion depth. Does NOT decide that an expansion "
         "equals the hand-expanded body (regex whole-word replacement and string substitution are run-time semantics). R8: the depth test counts the open expansions so that a chain of 64 nested uses is still expanded.",
    design="DESIGN.md §6 C13")
CHECKS["C16"] = dict(
    technique="path enumeration over all assembler action ASTs (push/add_entry pairing with the production's @L lookaround; lock/unlock bracketing) + MIR value tracing of every position handed to get_err_pos in the driver; MIR def-use tagging of the line lookup's results; CFG dominance/reachability for the line-table text",
    text="Decides: each emitted instruction gets exactly one source-map entry taken at the start of its production (closing brace for the implied ret); "
         "set_source/lock/unlock bracket the nested macro parse on every path; every driver message and preprocess diagnostic passes the recorded position "
         "unmodified to the line lookup; the lookup objects hold no interior-mutable state.  Round 5: a column handed to a message is `position - line start` (R9, classification of every subtraction between the results of the line lookup); positions the assembler records for a later report are source positions also inside a macro expansion (R10); the table of line boundaries is built from the newline-terminated text and the text is not modified afterwards (R11, dominance/reachability on the driver's CFG). Still not decided: which table entry the scan loops of LexerHelper select.",
    design="DESIGN.md §6 C16")

CHECKS["C08"] = dict(
    technique="link-by-link structural verification: action-AST effect paths (label/procedure bound to out.code.len() before any push), abstract interpretation of call/ret (targets unmodified, current+1), MIR dataflow/dominance rules on the driver loop, LR-table adjacency check",
    text="Decides every link a trace argument needs, for all inputs: labels/procedures bound to the index of the next emitted instruction; one push per action "
         "path; implied ret; call pushes current+1 and jumps to fn_map[name]; ret jumps to the popped value; driver: idx0 from `start`, hlt appended once before "
         "the loop, the interpreter gets out.code[idx] and idx, arms JMP/NEXT/PRINT/INT/REPEAT/HALT update idx correctly; all 25 adjacent item-kind pairs parse. "
         "Does NOT enumerate whole-program traces: their correctness is the composition of these links (argued in DESIGN.md). R4 also requires the return index to be pushed on every path that enters the procedure (the push, or a helper that always pushes, dominates the JMP outcome).",
    design="DESIGN.md §6 C08")
CHECKS["C14"] = dict(
    technique="path enumeration over assembler action ASTs (rejecting branch per error class dominates every emission), grammar-shape scan of operand classes, CFG dominance of the driver's three gates, Err-never-reaches-Ok rule in preprocess()",
    text="Decides: for each error class (jump to data label, duplicate label/procedure, data operand or OFFSET on code/unknown label, call of a non-procedure, "
         "out-of-range constant (conversion made in the operand's own type, failure -> diagnostic), unsupported int/mnemonic) the rejecting path ends in a diagnostic and emits nothing; no production mixes widths or takes two "
         "memory operands; the preprocess, undefined-label and `start` gates dominate loading and execution and have printing exits. Does NOT decide that "
         "diagnostic texts are non-empty for every program.",
    design="DESIGN.md §6 C14")

CHECKS["C19"] = dict(
    technique="type-level facts read from rustc (statics, receiver kinds, Freeze/Send/Sync auto traits, unsafe blocks) + CFG lint for observable iteration over hash containers + call-graph scan for non-deterministic std services + abstract interpretation of VM::new to constants",
    text="Decides: no static/thread-local state exists in either crate; the four parse() methods take &self and the parser structs, VM, i8086 and the contexts are "
         "Freeze+Send+Sync with no unsafe block anywhere (so a parser object cannot remember a line and two machines share nothing); no loop over a HashMap/HashSet "
         "prints, formats or leaves early with the element (hash-order dependent output); no clock/RNG/env/thread-id/pointer-format call; VM::new yields constant 0 "
         "in every register except FLAGS=F000h, CS=FFFFh and a fresh zeroed memory, and Default delegates to it. Does NOT decide byte-identity of whole runs directly; "
         "it removes every source of run-to-run variation that the code's shape can contain. R3 also follows a vector collected from a hash iterator to order-sensitive reads without a loop (join, concat, first/last/get, index, pop, Debug) and requires a dominating total sort.",
    design="DESIGN.md §6 C19")

CHECKS["C20"] = dict(
    technique="CFG rules on the binary crate's MIR: taint of read_line's byte count to a loop exit, classification of prompt words by the ending their equal-edge reaches, effect scan of the stepping region and the INT 3 arm, truth table of prompt counts by partial evaluation of the region's branches over the atoms interpreted/TF/not-the-appended-hlt, value tracing of the message position; type-based recognition of text comparisons (any `eq` on string-typed operands)",
    text="Decides: the prompt loop has an end-of-input exit; n/next return, q/quit exit, every other line goes to the print parser with the same &VM and then back to "
         "the prompt; between the loop head and the interpreter call (and in the INT 3 arm) nothing assigns the instruction index or borrows the machine mutably, and "
         "the prompt/print functions take &VM; the number of prompts before an instruction is exactly 1 iff (interpreted or TF of the current flag word) and the "
         "instruction is not the appended hlt, on every path (8-row table); the bound's arithmetic cannot underflow; the line named is the instruction's own. "
         "Does NOT decide equality of whole runs (composition of these facts over the instruction loop, argued). R4 atom P: a comparison of the index with a remembered value may not guard the prompt.",
    design="DESIGN.md §6 C20")

CHECKS["C18"] = dict(
    technique="abstract interpretation of int_13/int_21 with AH fixed to each documented function (bit domain for the register frame, intervals for bounds/overflow sites, dependency sets of every memory address) + partial evaluation of the driver's INT arms and of the services over all 256 AH values + control-dependence/may-depend analysis of the AH=0Ah copy loop; witness search by input specialisation (sound for violations: a restricted run is a sub-case of the inputs)",
    text="Decides: which of the 256 AH values the driver lets through, which the services act on and that both equal the documented sets, with every other value ending "
         "in a printed diagnostic and return; per service the frame (only AL changes; AH=2 copies DL; AH=1/2 write no memory; int_13 takes &VM), the registers each memory "
         "address depends on (DS:DX buffer, ES:BP string), the loop bounds (CX, DL), every bounds/overflow site with all registers and input free, and that the AH=0Ah "
         "copy loop is control dependent on the capacity byte and the count on capacity and input, and that no length or count is narrowed without a guarding test. Does NOT decide the characters written to stdout. R1 covers range accesses `mem[a..b]` (start <= end <= 2^20) and, for sites the domains leave undecided, searches a witness by restricting the inputs to sub-cases (all memory bytes FFh/00h/01h, one input length) in which operands become exact.",
    design="DESIGN.md §6 C18")

CHECKS["C17"] = dict(
    technique="format-literal/argument pairing on the syn ASTs of the print actions cross-checked against the MIR borrow sequence; type facts (&VM everywhere); abstract interpretation of the three `print mem` productions (affine closed forms of the range ends, interval proof of every memory index); finite-state evaluation of the column counter; MIR value tracing in the driver; closed-form range rules (start/end of each print-mem form incl. `end stays inside the 1 MB space`), 16-state row-layout automaton",
    text="Decides: every label of `print reg`/`print flags` is followed by the value of the register/flag it names (12 + 9 pairs, resolved by the compiler), in {:04X} / 0-1 / "
         "{:02X} format; the printer, the prompt and every print action can only read the machine; the printed range is exactly a..=b, a..=a+n, 16*DS..=16*DS+n in closed form "
         "for all numerals and DS, with every vm.mem index proved < 2^20 (backwards and overflowing ranges are diverted); the PRINT arm and the prompt use one parser object and "
         "the executing instruction's text; the assembler rejects a+n >= 2^20; 16 bytes per row whatever the start address. Does NOT decide diagnostic texts. R3 also decides that the smallest documented range (`a -> a`, `a : 0`, `: 0`) reaches the printing loop (the abstract run restricted to that sub-case).",
    design="DESIGN.md §6 C17")

CHECKS["C15"] = dict(
    technique="abort-site census by abstract interpretation of MIR (intervals, token-length atoms, ASCII-terminal slicing proofs) over every action of the assembler/data/print grammars and the front-end functions; interprocedural index-unit analysis (character count vs byte offset) over both crates; CFG rules for end-of-input exits of read loops and for depth tests on parser re-entry; call-graph recursion scan",
    text="Decides, for every input text at once: which potential abort sites of the front end are proved safe, which definitely fail (with the operand range as witness) and which "
         "remain undecided (listed); that no str is sliced or compared with a position counted in characters, nor sliced at a byte offset displaced by a constant; that every stdin read loop can leave at end of input; that native "
         "recursion driven by the input has a depth bound; that nothing else recurses. Does NOT decide proportional time/memory, nor the sites listed as undecided (str slices whose "
         "bounds come from the newline table, unwraps of map lookups, the generated LR driver).",
    design="DESIGN.md §6 C15")

NOT_YET = {}


def main():
    props = [json.loads(l) for l in open(os.path.join(HERE, "properties.jsonl"))]
    checks = []
    na = []
    for p in props:
        pid = p["id"]
        if pid in CHECKS:
            c = CHECKS[pid]
            checks.append({
                "property_id": pid,
                "quick_cmd": f"./check {pid} --tier quick",
                "thorough_cmd": f"./check {pid} --tier thorough",
                "evidence_file": f"/verif/evidence/{pid}.json",
                "replay_cmd_template": f"./check {pid} --replay {{path}}",
                "engine": "static-analysis",
                "level_claimed": {"category": "other", "text": c["text"], "design_ref": c["design"]},
                "level_note": NOTE_COMMON,
                "technique": c["technique"],
            })
        else:
            na.append({"property_id": pid, "reason": NOT_YET.get(pid, "check under construction in this session (static rules designed in DESIGN.md §6, not yet registered)")})
    m = {
        "version": 1,
        "setup_cmd": "./setup.sh",
        "hooks": {
            "guard": "emu8086_verif",
            "enable": "none needed: static analysis reads the working tree; no hook commit exists",
            "baseline_off_cmd": "cd /repo && cargo test --workspace --no-fail-fast --offline",
            "source_commits": [],
            "add_only": True,
        },
        "engines": [
            {"name": "mirfacts", "path": "tools/mirfacts", "serves_properties": sorted(CHECKS), "kind_free_text": "rustc_private driver: MIR + type facts as JSON (engine M)"},
            {"name": "gram", "path": "tools/gram", "serves_properties": sorted(CHECKS), "kind_free_text": "vendored lalrpop front end: grammar, LR(1) tables, lexer, action ASTs (engines G, A)"},
            {"name": "analysis", "path": "analysis", "serves_properties": sorted(CHECKS), "kind_free_text": "Python abstract interpreter and rule modules (engines V, P, T)"},
        ],
        "checks": checks,
        "not_applicable": na,
        "notes": "Technique family: static analysis only. See DESIGN.md. Known genuine defects are listed in known_findings.tsv.",
    }
    with open(os.path.join(HERE, "MANIFEST.json"), "w") as fh:
        json.dump(m, fh, indent=1)
    print("wrote MANIFEST.json:", len(checks), "checks,", len(na), "not claimed")


if __name__ == "__main__":
    main()
