// mirfacts: rustc driver that serialises MIR + type facts of the local crate as JSON.
// Used as RUSTC_WORKSPACE_WRAPPER: argv = [mirfacts, rustc, <rustc args...>].
// Output: $MIRFACTS_OUT/<crate_name>.<crate_type>.json, one write per process.
#![feature(rustc_private)]

extern crate rustc_abi;
extern crate rustc_driver;
extern crate rustc_hir;
extern crate rustc_interface;
extern crate rustc_middle;
extern crate rustc_span;
extern crate rustc_infer;
extern crate rustc_trait_selection;

use rustc_driver::Compilation;
use rustc_hir::def::DefKind;
use rustc_interface::interface::Compiler;
use rustc_middle::mir::{
    self, AggregateKind, BinOp, Body, CastKind, Const, Operand, Place, PlaceElem, Rvalue,
    StatementKind, TerminatorKind, UnOp,
};
use rustc_middle::ty::{self, Instance, Ty, TyCtxt, TypingEnv};
use rustc_span::Span;
use std::fmt::Write as _;

struct Cb;

fn esc(s: &str) -> String {
    let mut o = String::with_capacity(s.len() + 2);
    o.push('"');
    for c in s.chars() {
        match c {
            '"' => o.push_str("\\\""),
            '\\' => o.push_str("\\\\"),
            '\n' => o.push_str("\\n"),
            '\r' => o.push_str("\\r"),
            '\t' => o.push_str("\\t"),
            c if (c as u32) < 0x20 => {
                let _ = write!(o, "\\u{:04x}", c as u32);
            }
            c => o.push(c),
        }
    }
    o.push('"');
    o
}

fn span_str(tcx: TyCtxt<'_>, sp: Span) -> String {
    let sm = tcx.sess.source_map();
    let lo = sm.lookup_char_pos(sp.lo());
    let f = format!("{}", lo.file.name.prefer_local_unconditionally());
    format!("{}:{}:{}", f, lo.line, lo.col.0 + 1)
}

fn line_of(tcx: TyCtxt<'_>, sp: Span) -> usize {
    let sm = tcx.sess.source_map();
    sm.lookup_char_pos(sp.lo()).line
}

struct Ctx<'tcx> {
    tcx: TyCtxt<'tcx>,
    env: TypingEnv<'tcx>,
    body: &'tcx Body<'tcx>,
}

impl<'tcx> Ctx<'tcx> {
    fn ty(&self, t: Ty<'tcx>) -> String {
        esc(&format!("{}", t))
    }

    fn place(&self, p: &Place<'tcx>) -> String {
        let mut s = format!("{{\"l\":{},\"p\":[", p.local.as_usize());
        let mut pty = mir::PlaceTy::from_ty(self.body.local_decls[p.local].ty);
        let mut first = true;
        for elem in p.projection.iter() {
            if !first {
                s.push(',');
            }
            first = false;
            match elem {
                PlaceElem::Deref => s.push_str("\"deref\""),
                PlaceElem::Field(f, _) => {
                    // field name, if the base is an ADT
                    let mut name = String::new();
                    if let ty::Adt(adt, _) = pty.ty.kind() {
                        let vidx = pty.variant_index.unwrap_or(rustc_abi::FIRST_VARIANT);
                        if vidx.as_usize() < adt.variants().len() {
                            let v = adt.variant(vidx);
                            if f.as_usize() < v.fields.len() {
                                name = v.fields[f].name.to_string();
                            }
                        }
                    }
                    let _ = write!(s, "[\"f\",{},{}]", f.as_usize(), esc(&name));
                }
                PlaceElem::Index(l) => {
                    let _ = write!(s, "[\"idx\",{}]", l.as_usize());
                }
                PlaceElem::ConstantIndex { offset, min_length: _, from_end } => {
                    let _ = write!(s, "[\"cidx\",{},{}]", offset, from_end);
                }
                PlaceElem::Subslice { from, to, from_end } => {
                    let _ = write!(s, "[\"sub\",{},{},{}]", from, to, from_end);
                }
                PlaceElem::Downcast(name, v) => {
                    let n = name.map(|x| x.to_string()).unwrap_or_default();
                    let _ = write!(s, "[\"down\",{},{}]", v.as_usize(), esc(&n));
                }
                _ => s.push_str("\"other\""),
            }
            pty = pty.projection_ty(self.tcx, elem);
        }
        let _ = write!(s, "],\"ty\":{}}}", self.ty(pty.ty));
        s
    }

    fn fn_ref(&self, def_id: rustc_hir::def_id::DefId, args: ty::GenericArgsRef<'tcx>) -> String {
        let tcx = self.tcx;
        let mut did = def_id;
        let mut resolved = false;
        if let Ok(Some(inst)) = Instance::try_resolve(tcx, self.env, def_id, args) {
            did = inst.def_id();
            resolved = true;
        }
        let path = tcx.def_path_str(did);
        let krate = tcx.crate_name(did.krate).to_string();
        let generic = format!("{}", tcx.def_path_str_with_args(def_id, args));
        let id = format!("{}{}", krate, tcx.def_path(did).to_string_no_crate_verbose());
        format!(
            "{{\"def\":{},\"id\":{},\"crate\":{},\"local\":{},\"resolved\":{},\"inst\":{}}}",
            esc(&path),
            esc(&id),
            esc(&krate),
            did.is_local(),
            resolved,
            esc(&generic)
        )
    }

    fn constant(&self, c: &Const<'tcx>) -> String {
        let tcx = self.tcx;
        let t = c.ty();
        let mut s = format!("{{\"ty\":{}", self.ty(t));
        match t.kind() {
            ty::FnDef(def_id, args) => {
                let _ = write!(s, ",\"fn\":{}", self.fn_ref(*def_id, args));
            }
            ty::Bool | ty::Int(_) | ty::Uint(_) | ty::Char => {
                if let Some(si) = c.try_eval_scalar_int(tcx, self.env) {
                    let size = si.size();
                    let raw: u128 = si.to_bits(size);
                    let v: i128 = match t.kind() {
                        ty::Int(_) => size.sign_extend(raw) as i128,
                        _ => raw as i128,
                    };
                    let _ = write!(s, ",\"val\":{}", v);
                }
            }
            _ => {
                // string / other constants: keep the pretty form
                let _ = write!(s, ",\"txt\":{}", esc(&format!("{}", c)));
            }
        }
        s.push('}');
        s
    }

    fn operand(&self, o: &Operand<'tcx>) -> String {
        match o {
            Operand::Copy(p) => format!("[\"copy\",{}]", self.place(p)),
            Operand::Move(p) => format!("[\"move\",{}]", self.place(p)),
            Operand::Constant(c) => format!("[\"const\",{}]", self.constant(&c.const_)),
            #[allow(unreachable_patterns)]
            _ => "[\"other\"]".to_string(),
        }
    }

    fn binop(&self, b: BinOp) -> &'static str {
        match b {
            BinOp::Add => "Add",
            BinOp::AddUnchecked => "Add",
            BinOp::AddWithOverflow => "AddO",
            BinOp::Sub => "Sub",
            BinOp::SubUnchecked => "Sub",
            BinOp::SubWithOverflow => "SubO",
            BinOp::Mul => "Mul",
            BinOp::MulUnchecked => "Mul",
            BinOp::MulWithOverflow => "MulO",
            BinOp::Div => "Div",
            BinOp::Rem => "Rem",
            BinOp::BitXor => "BitXor",
            BinOp::BitAnd => "BitAnd",
            BinOp::BitOr => "BitOr",
            BinOp::Shl => "Shl",
            BinOp::ShlUnchecked => "Shl",
            BinOp::Shr => "Shr",
            BinOp::ShrUnchecked => "Shr",
            BinOp::Eq => "Eq",
            BinOp::Lt => "Lt",
            BinOp::Le => "Le",
            BinOp::Ne => "Ne",
            BinOp::Ge => "Ge",
            BinOp::Gt => "Gt",
            BinOp::Cmp => "Cmp",
            BinOp::Offset => "Offset",
        }
    }

    fn rvalue(&self, r: &Rvalue<'tcx>) -> String {
        match r {
            Rvalue::Use(o, _) => format!("[\"use\",{}]", self.operand(o)),
            Rvalue::Repeat(o, n) => format!("[\"repeat\",{},{}]", self.operand(o), esc(&format!("{}", n))),
            Rvalue::Ref(_, bk, p) => {
                let m = match bk {
                    mir::BorrowKind::Mut { .. } => "mut",
                    _ => "shared",
                };
                format!("[\"ref\",{},\"{}\"]", self.place(p), m)
            }
            Rvalue::RawPtr(_, p) => format!("[\"rawptr\",{}]", self.place(p)),
            Rvalue::Cast(k, o, t) => {
                let ks = match k {
                    CastKind::IntToInt => "IntToInt".to_string(),
                    CastKind::Transmute => "Transmute".to_string(),
                    other => format!("{:?}", other),
                };
                format!("[\"cast\",{},{},{}]", esc(&ks), self.operand(o), self.ty(*t))
            }
            Rvalue::BinaryOp(op, ab) => {
                format!("[\"bin\",\"{}\",{},{}]", self.binop(*op), self.operand(&ab.0), self.operand(&ab.1))
            }
            Rvalue::UnaryOp(op, a) => {
                let n = match op {
                    UnOp::Not => "Not",
                    UnOp::Neg => "Neg",
                    UnOp::PtrMetadata => "PtrMetadata",
                };
                format!("[\"un\",\"{}\",{}]", n, self.operand(a))
            }
            Rvalue::Discriminant(p) => format!("[\"disc\",{}]", self.place(p)),
            Rvalue::Aggregate(k, ops) => {
                let ks = match &**k {
                    AggregateKind::Array(_) => "{\"k\":\"array\"}".to_string(),
                    AggregateKind::Tuple => "{\"k\":\"tuple\"}".to_string(),
                    AggregateKind::Adt(did, v, _, _, _) => {
                        let adt = self.tcx.adt_def(*did);
                        let vn = adt.variant(*v).name.to_string();
                        let fields: Vec<String> =
                            adt.variant(*v).fields.iter().map(|f| esc(&f.name.to_string())).collect();
                        format!(
                            "{{\"k\":\"adt\",\"name\":{},\"enum\":{},\"nvariants\":{},\"variant\":{},\"vname\":{},\"fields\":[{}]}}",
                            esc(&self.tcx.def_path_str(*did)),
                            adt.is_enum(),
                            adt.variants().len(),
                            v.as_usize(),
                            esc(&vn),
                            fields.join(",")
                        )
                    }
                    AggregateKind::Closure(did, _) => {
                        format!("{{\"k\":\"closure\",\"name\":{}}}", esc(&self.tcx.def_path_str(*did)))
                    }
                    _ => "{\"k\":\"other\"}".to_string(),
                };
                let os: Vec<String> = ops.iter().map(|o| self.operand(o)).collect();
                format!("[\"agg\",{},[{}]]", ks, os.join(","))
            }
            Rvalue::CopyForDeref(p) => format!("[\"use\",[\"copy\",{}]]", self.place(p)),
            other => format!("[\"other\",{}]", esc(&format!("{:?}", other))),
        }
    }

    fn term(&self, t: &mir::Terminator<'tcx>) -> String {
        let line = line_of(self.tcx, t.source_info.span);
        let exp = t.source_info.span.from_expansion();
        let body = match &t.kind {
            TerminatorKind::Goto { target } => format!("[\"goto\",{}]", target.as_usize()),
            TerminatorKind::SwitchInt { discr, targets } => {
                let mut arms = Vec::new();
                for (v, bb) in targets.iter() {
                    arms.push(format!("[{},{}]", v, bb.as_usize()));
                }
                format!(
                    "[\"switch\",{},[{}],{}]",
                    self.operand(discr),
                    arms.join(","),
                    targets.otherwise().as_usize()
                )
            }
            TerminatorKind::Return => "[\"return\"]".to_string(),
            TerminatorKind::Unreachable => "[\"unreachable\"]".to_string(),
            TerminatorKind::UnwindResume => "[\"resume\"]".to_string(),
            TerminatorKind::UnwindTerminate(_) => "[\"abort\"]".to_string(),
            TerminatorKind::Drop { place, target, .. } => {
                format!("[\"drop\",{},{}]", self.place(place), target.as_usize())
            }
            TerminatorKind::Call { func, args, destination, target, .. } => {
                let f = match func {
                    Operand::Constant(c) => match c.const_.ty().kind() {
                        ty::FnDef(def_id, gargs) => self.fn_ref(*def_id, gargs),
                        _ => format!("{{\"indirect\":true,\"op\":{}}}", self.operand(func)),
                    },
                    _ => format!("{{\"indirect\":true,\"op\":{}}}", self.operand(func)),
                };
                let a: Vec<String> = args.iter().map(|x| self.operand(&x.node)).collect();
                let tg = match target {
                    Some(b) => format!("{}", b.as_usize()),
                    None => "null".to_string(),
                };
                format!("[\"call\",{},[{}],{},{}]", f, a.join(","), self.place(destination), tg)
            }
            TerminatorKind::Assert { cond, expected, msg, target, .. } => {
                use rustc_middle::mir::AssertKind as AK;
                let (kind, ops): (String, Vec<String>) = match &**msg {
                    AK::BoundsCheck { len, index } => {
                        ("BoundsCheck".into(), vec![self.operand(len), self.operand(index)])
                    }
                    AK::Overflow(op, a, b) => {
                        (format!("Overflow:{}", self.binop(*op)), vec![self.operand(a), self.operand(b)])
                    }
                    AK::OverflowNeg(a) => ("OverflowNeg".into(), vec![self.operand(a)]),
                    AK::DivisionByZero(a) => ("DivisionByZero".into(), vec![self.operand(a)]),
                    AK::RemainderByZero(a) => ("RemainderByZero".into(), vec![self.operand(a)]),
                    other => (format!("Other:{:?}", other), vec![]),
                };
                format!(
                    "[\"assert\",{},{},{},[{}],{}]",
                    self.operand(cond),
                    expected,
                    esc(&kind),
                    ops.join(","),
                    target.as_usize()
                )
            }
            other => format!("[\"other\",{}]", esc(&format!("{:?}", other))),
        };
        format!("{{\"t\":{},\"line\":{},\"exp\":{}}}", body, line, exp)
    }
}

fn collect_consts<'tcx>(cx: &Ctx<'tcx>, r: &Rvalue<'tcx>, out: &mut Vec<String>) {
    let mut op = |o: &Operand<'tcx>| {
        if let Operand::Constant(c) = o {
            out.push(cx.constant(&c.const_));
        }
    };
    match r {
        Rvalue::Use(o, ..) => op(o),
        Rvalue::Cast(_, o, _) => op(o),
        Rvalue::Aggregate(_, ops) => {
            for o in ops.iter() {
                op(o)
            }
        }
        Rvalue::Repeat(o, _) => op(o),
        _ => {}
    }
}

struct UnsafeFinder<'tcx> {
    tcx: TyCtxt<'tcx>,
    found: Vec<String>,
}

impl<'tcx> rustc_hir::intravisit::Visitor<'tcx> for UnsafeFinder<'tcx> {
    fn visit_block(&mut self, b: &'tcx rustc_hir::Block<'tcx>) {
        if let rustc_hir::BlockCheckMode::UnsafeBlock(rustc_hir::UnsafeSource::UserProvided) = b.rules {
            if !b.span.from_expansion() {
                self.found.push(esc(&span_str(self.tcx, b.span)));
            }
        }
        rustc_hir::intravisit::walk_block(self, b);
    }
}

fn dump_body<'tcx>(tcx: TyCtxt<'tcx>, did: rustc_hir::def_id::LocalDefId, out: &mut String) {
    let body: &'tcx Body<'tcx> = tcx.optimized_mir(did.to_def_id());
    let env = TypingEnv::post_analysis(tcx, did.to_def_id());
    let cx = Ctx { tcx, env, body };
    let name = tcx.def_path_str(did.to_def_id());
    let id = format!(
        "{}{}",
        tcx.crate_name(rustc_hir::def_id::LOCAL_CRATE),
        tcx.def_path(did.to_def_id()).to_string_no_crate_verbose()
    );
    let _ = write!(
        out,
        "{{\"name\":{},\"id\":{},\"span\":{},\"argc\":{},\"kind\":{},\"locals\":[",
        esc(&name),
        esc(&id),
        esc(&span_str(tcx, body.span)),
        body.arg_count,
        esc(&format!("{:?}", tcx.def_kind(did.to_def_id())))
    );
    // user variable names
    let mut names: Vec<String> = vec![String::new(); body.local_decls.len()];
    for vdi in body.var_debug_info.iter() {
        if let mir::VarDebugInfoContents::Place(p) = &vdi.value {
            if p.projection.is_empty() {
                names[p.local.as_usize()] = vdi.name.to_string();
            }
        }
    }
    for (i, ld) in body.local_decls.iter().enumerate() {
        if i > 0 {
            out.push(',');
        }
        let _ = write!(out, "{{\"ty\":{},\"name\":{}}}", cx.ty(ld.ty), esc(&names[i]));
    }
    out.push_str("],\"promoted\":[");
    {
        // promoted constants (e.g. the `&"next"` operands of string comparisons): the constants each one is built from
        let proms = tcx.promoted_mir(did.to_def_id());
        for (pi, pb) in proms.iter().enumerate() {
            if pi > 0 {
                out.push(',');
            }
            let pcx = Ctx { tcx, env, body: pb };
            let mut cs: Vec<String> = Vec::new();
            for bb in pb.basic_blocks.iter() {
                for st in bb.statements.iter() {
                    if let StatementKind::Assign(b) = &st.kind {
                        let (_, r) = &**b;
                        collect_consts(&pcx, r, &mut cs);
                    }
                }
            }
            let _ = write!(out, "[{}]", cs.join(","));
        }
    }
    out.push_str("],\"unsafe_blocks\":[");
    {
        let mut v = UnsafeFinder { tcx, found: Vec::new() };
        if let Some(b) = tcx.hir_maybe_body_owned_by(did) {
            rustc_hir::intravisit::Visitor::visit_body(&mut v, b);
        }
        let _ = write!(out, "{}", v.found.join(","));
    }
    out.push_str("],\"blocks\":[");
    for (bi, bb) in body.basic_blocks.iter().enumerate() {
        if bi > 0 {
            out.push(',');
        }
        let _ = write!(out, "{{\"cleanup\":{},\"stmts\":[", bb.is_cleanup);
        let mut first = true;
        for st in bb.statements.iter() {
            let s = match &st.kind {
                StatementKind::Assign(b) => {
                    let (p, r) = &**b;
                    Some(format!(
                        "[\"assign\",{},{},{}]",
                        cx.place(p),
                        cx.rvalue(r),
                        line_of(tcx, st.source_info.span)
                    ))
                }
                StatementKind::SetDiscriminant { place, variant_index } => Some(format!(
                    "[\"setdisc\",{},{}]",
                    cx.place(place),
                    variant_index.as_usize()
                )),
                _ => None,
            };
            if let Some(s) = s {
                if !first {
                    out.push(',');
                }
                first = false;
                out.push_str(&s);
            }
        }
        out.push_str("],\"term\":");
        match &bb.terminator {
            Some(t) => out.push_str(&cx.term(t)),
            None => out.push_str("null"),
        }
        out.push('}');
    }
    out.push_str("]}");
}

fn type_facts<'tcx>(tcx: TyCtxt<'tcx>, out: &mut String) {
    // ADTs, statics, fn signatures of the local crate
    let mut adts = Vec::new();
    let mut statics = Vec::new();
    let mut sigs = Vec::new();
    let mut consts = Vec::new();
    for id in tcx.hir_crate_items(()).definitions() {
        let did = id.to_def_id();
        let kind = tcx.def_kind(did);
        match kind {
            DefKind::Struct | DefKind::Enum | DefKind::Union => {
                let adt = tcx.adt_def(did);
                let t = tcx.type_of(did).instantiate_identity().skip_norm_wip();
                let env = TypingEnv::post_analysis(tcx, did);
                let generic = tcx.generics_of(did).count() > 0;
                let (freeze, copy) = if generic {
                    (None, None)
                } else {
                    (Some(t.is_freeze(tcx, env)), Some(tcx.type_is_copy_modulo_regions(env, t)))
                };
                let (send, sync) = if generic {
                    (None, None)
                } else {
                    use rustc_infer::infer::TyCtxtInferExt;
                    use rustc_trait_selection::infer::InferCtxtExt;
                    let (infcx, penv) = tcx.infer_ctxt().build_with_typing_env(env);
                    let mut r = (None, None);
                    if let Some(sd) = tcx.get_diagnostic_item(rustc_span::sym::Send) {
                        r.0 = Some(infcx.type_implements_trait(sd, [t], penv).must_apply_modulo_regions());
                    }
                    if let Some(sd) = tcx.get_diagnostic_item(rustc_span::sym::Sync) {
                        r.1 = Some(infcx.type_implements_trait(sd, [t], penv).must_apply_modulo_regions());
                    }
                    r
                };
                let mut vs = Vec::new();
                for v in adt.variants().iter() {
                    let fs: Vec<String> = v
                        .fields
                        .iter()
                        .map(|f| {
                            let ft = tcx.type_of(f.did).instantiate_identity().skip_norm_wip();
                            format!("[{},{}]", esc(&f.name.to_string()), esc(&format!("{}", ft)))
                        })
                        .collect();
                    vs.push(format!("{{\"name\":{},\"fields\":[{}]}}", esc(&v.name.to_string()), fs.join(",")));
                }
                adts.push(format!(
                    "{{\"name\":{},\"kind\":{},\"freeze\":{},\"copy\":{},\"send\":{},\"sync\":{},\"variants\":[{}]}}",
                    esc(&tcx.def_path_str(did)),
                    esc(&format!("{:?}", kind)),
                    freeze.map(|b| b.to_string()).unwrap_or("null".into()),
                    copy.map(|b| b.to_string()).unwrap_or("null".into()),
                    send.map(|b| b.to_string()).unwrap_or("null".into()),
                    sync.map(|b| b.to_string()).unwrap_or("null".into()),
                    vs.join(",")
                ));
            }
            DefKind::Static { mutability, .. } => {
                let t = tcx.type_of(did).instantiate_identity().skip_norm_wip();
                let env = TypingEnv::post_analysis(tcx, did);
                let freeze = t.is_freeze(tcx, env);
                let tl = tcx.is_thread_local_static(did);
                statics.push(format!(
                    "{{\"name\":{},\"ty\":{},\"mut\":{},\"freeze\":{},\"thread_local\":{},\"span\":{}}}",
                    esc(&tcx.def_path_str(did)),
                    esc(&format!("{}", t)),
                    mutability.is_mut(),
                    freeze,
                    tl,
                    esc(&span_str(tcx, tcx.def_span(did)))
                ));
            }
            DefKind::Fn | DefKind::AssocFn => {
                let sig = tcx.fn_sig(did).instantiate_identity().skip_norm_wip().skip_binder();
                let ins: Vec<String> = sig.inputs().iter().map(|t| esc(&format!("{}", t))).collect();
                let vis = tcx.visibility(did).is_public();
                sigs.push(format!(
                    "{{\"name\":{},\"inputs\":[{}],\"output\":{},\"pub\":{},\"unsafe\":{}}}",
                    esc(&tcx.def_path_str(did)),
                    ins.join(","),
                    esc(&format!("{}", sig.output())),
                    vis,
                    !sig.safety().is_safe()
                ));
            }
            DefKind::Const { .. } | DefKind::AssocConst { .. } => {
                let t = tcx.type_of(did).instantiate_identity().skip_norm_wip();
                let mut val = "null".to_string();
                if tcx.generics_of(did).count() == 0 {
                    if matches!(t.kind(), ty::Bool | ty::Int(_) | ty::Uint(_) | ty::Char) {
                        let env = TypingEnv::post_analysis(tcx, did);
                        if let Ok(cv) = tcx.const_eval_poly(did) {
                            if let Some(si) = cv.try_to_scalar_int() {
                                let size = si.size();
                                let raw: u128 = si.to_bits(size);
                                let v: i128 = match t.kind() {
                                    ty::Int(_) => size.sign_extend(raw) as i128,
                                    _ => raw as i128,
                                };
                                val = format!("{}", v);
                            }
                        }
                        let _ = env;
                    }
                }
                consts.push(format!(
                    "{{\"name\":{},\"ty\":{},\"val\":{}}}",
                    esc(&tcx.def_path_str(did)),
                    esc(&format!("{}", t)),
                    val
                ));
            }
            _ => {}
        }
    }
    let _ = write!(
        out,
        "\"adts\":[{}],\"statics\":[{}],\"sigs\":[{}],\"consts\":[{}]",
        adts.join(","),
        statics.join(","),
        sigs.join(","),
        consts.join(",")
    );
}

impl rustc_driver::Callbacks for Cb {
    fn after_analysis<'tcx>(&mut self, _c: &Compiler, tcx: TyCtxt<'tcx>) -> Compilation {
        let outdir = match std::env::var("MIRFACTS_OUT") {
            Ok(d) => d,
            Err(_) => return Compilation::Continue,
        };
        let cname = tcx.crate_name(rustc_hir::def_id::LOCAL_CRATE).to_string();
        let ctypes: Vec<String> = tcx.crate_types().iter().map(|c| format!("{:?}", c)).collect();
        let is_test = tcx.sess.opts.test;
        let mut out = String::with_capacity(1 << 24);
        let _ = write!(
            out,
            "{{\"crate\":{},\"crate_types\":{},\"test\":{},",
            esc(&cname),
            esc(&ctypes.join(",")),
            is_test
        );
        type_facts(tcx, &mut out);
        out.push_str(",\"fns\":[");
        let mut n = 0usize;
        let mut skipped = 0usize;
        let mut skipped_asserts = 0usize;
        for &did in tcx.mir_keys(()).iter() {
            let kind = tcx.def_kind(did.to_def_id());
            if !matches!(kind, DefKind::Fn | DefKind::AssocFn | DefKind::Closure) {
                continue;
            }
            let name = tcx.def_path_str(did.to_def_id());
            // the generated LR driver (state machine, symbol stack) is not dumped: only counted
            if name.contains("__parse__") {
                skipped += 1;
                let body = tcx.optimized_mir(did.to_def_id());
                for bb in body.basic_blocks.iter() {
                    if let Some(t) = &bb.terminator {
                        if matches!(t.kind, TerminatorKind::Assert { .. }) {
                            skipped_asserts += 1;
                        }
                    }
                }
                continue;
            }
            if n > 0 {
                out.push(',');
            }
            n += 1;
            dump_body(tcx, did, &mut out);
        }
        let _ = write!(
            out,
            "],\"n_fns\":{},\"skipped_generated\":{},\"skipped_generated_asserts\":{}}}",
            n, skipped, skipped_asserts
        );
        let suffix = if is_test { "test" } else { &ctypes.join("_") };
        let path = format!("{}/{}.{}.json", outdir, cname, suffix.replace(',', "_"));
        std::fs::write(&path, out).expect("write facts");
        Compilation::Continue
    }
}

fn main() {
    let mut args: Vec<String> = std::env::args().collect();
    // RUSTC_WORKSPACE_WRAPPER: argv[1] is the path of rustc
    if args.len() > 1 && (args[1].ends_with("rustc") || args[1].contains("/rustc")) {
        args.remove(1);
    }
    let mut cb = Cb;
    rustc_driver::run_compiler(&args, &mut cb);
}
