#!/usr/bin/env python3
"""debug helper: pretty-print the MIR facts of one function:  mirpp.py <lib|bin> <name-substring> [from-bb] [to-bb]"""
import sys, os
sys.path.insert(0, os.path.join(os.path.dirname(os.path.abspath(__file__)), "..", "..", "analysis"))
from facts import Facts


def pl(p):
    s = f"_{p['l']}"
    for e in p["p"]:
        if e == "deref":
            s = f"(*{s})"
        elif e[0] == "f":
            s += f".{e[2] or e[1]}"
        elif e[0] == "down":
            s = f"({s} as {e[2]})"
        elif e[0] == "idx":
            s += f"[_{e[1]}]"
        else:
            s += f"<{e}>"
    return s


def op(o):
    if o[0] == "const":
        c = o[1]
        return f"const {c.get('val', c.get('txt', c.get('fn', {}).get('def') if isinstance(c.get('fn'), dict) else '?'))}"
    if o[0] in ("copy", "move"):
        return pl(o[1])
    return str(o)


def rv(r):
    k = r[0]
    if k == "use":
        return op(r[1])
    if k == "ref":
        return f"&{'mut ' if r[2] == 'mut' else ''}{pl(r[1])}"
    if k == "bin":
        return f"{r[1]}({op(r[2])}, {op(r[3])})"
    if k == "un":
        return f"{r[1]}({op(r[2])})"
    if k == "cast":
        return f"{op(r[2]) if len(r) > 2 and isinstance(r[2], list) else r} as"
    if k == "disc":
        return f"discr({pl(r[1])})"
    if k == "agg":
        return f"{r[1]}{[op(x) for x in r[2]]}"
    return str(r)[:160]


def main():
    which, sub = sys.argv[1], sys.argv[2]
    lo = int(sys.argv[3]) if len(sys.argv) > 3 else 0
    hi = int(sys.argv[4]) if len(sys.argv) > 4 else 10 ** 9
    F = Facts()
    for f in F.mir(which)["fns"]:
        if sub not in f["name"]:
            continue
        print("fn", f["name"], f["span"], "argc", f["argc"])
        for i, l in enumerate(f["locals"]):
            if l["name"]:
                print(f"   _{i}: {l['ty']} = {l['name']}")
        for bi, b in enumerate(f["blocks"]):
            if not (lo <= bi <= hi) or b["cleanup"]:
                continue
            print(f" bb{bi}:")
            for s in b["stmts"]:
                if s[0] == "assign":
                    print(f"    {pl(s[1])} = {rv(s[2])}   // {s[3]}")
                else:
                    print("   ", s)
            t = b["term"]["t"]
            if t[0] == "call":
                callee = t[1].get("inst") or t[1].get("def") or ("indirect " + str(t[1].get("op")))
                print(f"    {pl(t[3])} = CALL {callee}({', '.join(op(a) for a in t[2])}) -> bb{t[4]}   // {b['term']['line']}")
            elif t[0] == "switch":
                print(f"    SWITCH {op(t[1])} {t[2]} else bb{t[3]}")
            elif t[0] == "assert":
                print(f"    ASSERT {t[1:5]} -> bb{t[5]}")
            else:
                print("   ", t)


main()
