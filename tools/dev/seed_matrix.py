#!/usr/bin/env python3
"""seed_matrix.py <seed-id>...: apply /verif/seeded/<id>/patch.diff to a scratch copy of /repo (outside /repo and /verif),
run every registered check against it, and write /verif/seeded/<id>/checks.json: per property the exit code and the keys of
the violations reported.  The scratch copy and its caches are removed afterwards."""
import json, os, shutil, subprocess, sys, tempfile

PROPS = (os.environ.get("VERIF_PROPS") or " ".join(f"C{i:02d}" for i in range(1, 21))).split()


def one(seed):
    sd = f"/verif/seeded/{seed}"
    wt = tempfile.mkdtemp(prefix=f"sm_{seed}_", dir="/tmp")
    try:
        subprocess.run(f"cd /repo && git ls-files | tar -c -T - | tar -x -C {wt}", shell=True, check=True)
        r = subprocess.run(["patch", "-p1", "-s", "-i", f"{sd}/patch.diff"], cwd=wt)
        if r.returncode:
            return {"error": "patch does not apply"}
        env = dict(os.environ, VERIF_REPO=wt, VERIF_EVIDENCE_DIR=f"{wt}/.ev", VERIF_CACHE_DIR=f"{wt}/.cache", VERIF_NO_SELFTEST="1")
        out = {}
        for p in PROPS:
            r = subprocess.run(["./check", p], cwd="/verif", env=env, capture_output=True, text=True)
            keys, inc = [], [l for l in r.stdout.splitlines() if l.startswith("ANALYSIS-INCOMPLETE")]
            try:
                ev = json.load(open(f"{wt}/.ev/{p}.json"))
                keys = [v["key"] for v in ev.get("violations", [])] if isinstance(ev.get("violations"), list) else []
            except Exception:
                pass
            if not keys:
                import glob
                for f in sorted(glob.glob(f"{wt}/.ev/replay/{p}-*.json")):
                    try:
                        keys.append(json.load(open(f))["key"])
                    except Exception:
                        pass
            out[p] = {"rc": r.returncode, "violations": sorted(set(keys)), "incomplete": inc}
            for f in __import__("glob").glob(f"{wt}/.ev/replay/{p}-*.json"):
                os.remove(f)
        return out
    finally:
        shutil.rmtree(wt, ignore_errors=True)


if __name__ == "__main__":
    for s in sys.argv[1:]:
        res = one(s)
        if os.environ.get("VERIF_PROPS") and os.path.exists(f"/verif/seeded/{s}/checks.json") and "error" not in res:
            # a run over a subset of the properties updates those entries only
            full = json.load(open(f"/verif/seeded/{s}/checks.json"))
            full.update(res)
            res = full
        json.dump(res, open(f"/verif/seeded/{s}/checks.json", "w"), indent=1, sort_keys=True)
        fired = {p: v["violations"] for p, v in res.items() if isinstance(v, dict) and v.get("rc") == 1}
        other = {p: v["rc"] for p, v in res.items() if isinstance(v, dict) and v.get("rc") not in (0, 1)}
        print(s, "FIRED", json.dumps(fired)[:600], "OTHER", other, flush=True)
