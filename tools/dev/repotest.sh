#!/bin/sh
# runs the repository's own suite against the working tree (build output outside /repo)
cd /repo && CARGO_TARGET_DIR=/tmp/tgt cargo test --workspace --no-fail-fast --offline 2>&1 | grep -E "^test result|FAILED|failed|panicked|error" | head -20
