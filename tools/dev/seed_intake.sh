#!/bin/bash
# seed_intake.sh <property> <dir with patch.diff demo/ notes.md> : copies the seed to /verif/seeded/<pid>-r<next>,
# verifies it in a scratch worktree (demo on pristine, apply, whole suite, demo on changed), records the outcome in
# seeded/verification.json, and runs all 20 checks against a scratch copy with the change (seed_matrix.py).
PID=$1; SRC=$2
n=1; while [ -d /verif/seeded/$PID-r$n ]; do n=$((n+1)); done
SID=$PID-r$n
D=/verif/seeded/$SID
mkdir -p $D
cp $SRC/patch.diff $D/; cp -r $SRC/demo $D/; cp $SRC/notes.md $D/ 2>/dev/null
rm -rf $D/demo/target $D/demo/*.log
WT=/tmp/sv/$SID
rm -rf $WT; mkdir -p /tmp/sv
git -C /repo worktree add -q --detach $WT HEAD || exit 9
export CARGO_NET_OFFLINE=true
( cd $WT
  sh $D/demo/run.sh $WT > /tmp/sv/$SID.pristine.log 2>&1; P=$?
  git apply $D/patch.diff || { echo "$SID PATCH DOES NOT APPLY"; exit 8; }
  S=$(CARGO_TARGET_DIR=$WT/target cargo test --workspace --no-fail-fast --offline 2>&1 | grep -E "^test result" | awk '{p+=$4; f+=$6} END {print p" passed, "f" failed"}')
  sh $D/demo/run.sh $WT > /tmp/sv/$SID.changed.log 2>&1; C=$?
  echo "$SID pristine_rc=$P changed_rc=$C suite=$S"
  python3 - "$SID" "$P" "$C" "$S" <<'PY'
import json,sys,fcntl
sid,p,c,s=sys.argv[1:5]
f=open('/verif/seeded/verification.json','r+'); fcntl.flock(f,fcntl.LOCK_EX)
v=json.load(f); v[sid]={"demo_changed_rc":int(c),"demo_pristine_rc":int(p),"suite_with_change":s}
f.seek(0); f.truncate(); json.dump(v,f,indent=1,sort_keys=True); f.close()
PY
)
git -C /repo worktree remove --force $WT
rm -rf $D/demo/target $D/demo/build.log
cd /verif && python3 tools/dev/seed_matrix.py $SID
