#!/usr/bin/env python3
"""ref_matrix.py <diff>...: apply a (behaviour-preserving) diff to a scratch copy of /repo, run every check, print the
properties whose check does not exit 0 together with the violation keys.  Scratch copy removed afterwards."""
import glob, json, os, shutil, subprocess, sys, tempfile

PROPS = (os.environ.get("VERIF_PROPS") or " ".join(f"C{i:02d}" for i in range(1, 21))).split()


def one(diff):
    name = "_".join(diff.rsplit("/", 2)[-2:]).replace(".diff", "")
    wt = tempfile.mkdtemp(prefix=f"rm_{name}_", dir="/tmp")
    try:
        subprocess.run(f"cd /repo && git ls-files | tar -c -T - | tar -x -C {wt}", shell=True, check=True)
        r = subprocess.run(["patch", "-p1", "-s", "-i", os.path.abspath(diff)], cwd=wt, capture_output=True, text=True)
        if r.returncode:
            return name, {"error": "patch does not apply: " + r.stdout[-200:]}
        env = dict(os.environ, VERIF_REPO=wt, VERIF_EVIDENCE_DIR=f"{wt}/.ev", VERIF_CACHE_DIR=f"{wt}/.cache", VERIF_NO_SELFTEST="1")
        out = {}
        for p in PROPS:
            r = subprocess.run(["./check", p], cwd="/verif", env=env, capture_output=True, text=True)
            if r.returncode == 0:
                continue
            keys = []
            for f in sorted(glob.glob(f"{wt}/.ev/replay/{p}-*.json")):
                try:
                    keys.append(json.load(open(f))["key"])
                except Exception:
                    pass
            inc = [l for l in r.stdout.splitlines() if l.startswith("ANALYSIS-INCOMPLETE")]
            out[p] = {"rc": r.returncode, "keys": keys, "incomplete": inc}
        return name, out
    finally:
        shutil.rmtree(wt, ignore_errors=True)


if __name__ == "__main__":
    for d in sys.argv[1:]:
        name, res = one(d)
        print(name, "SILENT" if not res else "ALARM " + json.dumps(res)[:1500], flush=True)
