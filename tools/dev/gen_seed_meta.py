#!/usr/bin/env python3
"""Writes /verif/seeded/<id>/meta.json from the seed's notes.md (written by the sub-agent that produced the change),
verification.json (what I re-ran myself: demonstration on the pristine tree and with the change, test suite with the
change) and checks.json (seed_matrix.py: every registered check run against a scratch copy with the change applied)."""
import json, os, re, sys

ROOT = "/verif/seeded"
ver = json.load(open(f"{ROOT}/verification.json"))
# rules written or strengthened only after the seed had been seen (the seed was first missed or caught for a wrong reason)
AFTER = {
    "C01-r1": "C01.R8 (byte/word sibling comparison) was added after this seed",
    "C03-r1": "the division lemma of C03.R3 (guard admits dividend == divisor * 2^16) was added after this seed",
    "C03-r2": "C03.R10 (byte-level frames of the adjust instructions) was added after this seed",
    "C06-r1": "C06.R1/R6 dependence of a predicate on a non-status flag was added after this seed",
    "C08-r1": "C08.R5 `arm can stop` was added after this seed",
    "C11-r1": "C11.R7 (component dropped from the emitted operand) was added after this seed",
    "C13-r1": "C13.R6 (whole-word pattern) was added after this seed",
    "C13-r2": "C13.R3 / C16.R6 own-location rule was added after this seed",
    "C14-r1": "C14.R5 (forward-reference record keeps the name) was added after this seed",
    "C14-r2": "C14.R6 (no label inside a macro expansion) was added after this seed",
    "C15-r2": "the enumeration of numeric alternatives in the C15.R1 census was added after this seed",
    "C16-r1": "C16.R5 (lock discipline of the source mapper) was added after this seed",
    "C16-r2": "C16.R6 (diagnostic positions) was added after this seed",
    "C17-r1": "C17.R3 `range end stays inside the 1 MB space` was added after this seed",
    "C18-r1": "C18.R7 (machine bytes written as characters) was added after this seed; before it the seed was a declared miss",
    "C19-r1": "C19.R3 partial-key sort detection was added after this seed",
    "C19-r2": "C19.R6 (bookkeeping balanced on error paths) was added after this seed; before it only C13.R1 fired, for a wrong reason (corrected)",
    "C01-r2": "C01.R9 (zero test on the stored result) was added after this seed; before it the seed was missed",
    "C04-r2": "reported by C11.R7, which was extended to optional components (segment override) and Option::filter after this seed; no rule of C04 sees the assembler side",
    "C07-r2": "C07.R4 flag frame of CMPS/SCAS (only the six status flags change) was added after this seed; before it the seed was missed",
    "C08-r2": "C08.R3 was strengthened after this seed from `some path appends ret` to `every path appends ret`",
    "C18-r2": "C18.R8 (a successful read, end of input included, defines AL / stores the count) was added after this seed",
    "C20-r2": "first reported by C20.R1/C15.R3 for a wrong reason (`no EOF exit`, although the loop still ends at end of input); R1 was corrected and C20.R2 `blank input terminates` added after this seed",
    "C01-r3": "C01.R10 (an immediate has the width of its destination) was added after this seed; before it only C10.R3 reported the change",
    "C02-r3": "C02.R11 (the `, cl` forms pass exactly CL) was added after this seed; before it the seed was missed (the count range was merely undecided)",
    "C10-r3": "C10.R7 (no downstream error return depends on the machine state) was added after this seed; before it the seed was missed (R5 is keyed by nonterminal)",
    "C13-r3": "the number clause of C13.R7 (a number argument keeps its value) was added after this seed; before it the seed was missed",
    "C14-r3": "the conversion-type clause of C14.R1 was added after this seed; before it only C11.R2 reported the change",
    "C15-r3": "the displaced-offset unit of C15.R2 was added after this seed; before it the seed was missed",
    "C16-r3": "C16.R7 (position lookups hold no interior-mutable state) was added after this seed; before it only C19.R2 reported the change",
    "C17-r3": "C17.R6 was generalised after this seed (row layout evaluated for several start addresses); before it the seed was undecided",
    "C18-r3": "C18.R9 (no unguarded lossy cast of a length) was added after this seed; before it the seed was missed",
    "C20-r3": "C20.R4 reported it through the missing bound atom; the `prompt depends on the instruction text` finding was added after this seed",
    "C01-r4": "caught by rules that existed before this seed was written (C01.R4 required dependency, C01.R12 flag predicates)",
    "C02-r4": "caught by rules that existed before this seed was written (C02.R10 sibling comparison); the form judgement of C02.R13 (`x > 8000h` is not a top-bit test) was added after it",
    "C03-r4": "the high-digit-test clause of C03.R10 and then C03.R14 (the adjusts as piecewise functions) were added after this seed; before them the seed was missed",
    "C07-r4": "reported by C07.R9, written before the seed; it became decidable only after `abs` got a model in V (before: undecided)",
    "C04-r4": "reported by C05.R2 (XCHG as exact data movement), which existed before this seed; no rule of C04 looks at XCHG's write-back",
    "C08-r4": "first reported by C11.R6 only (an accepted path that emits no line); the `emits-conditionally` clause of C08.R2 was added after this seed",
    "C09-r4": "first reported by C04.R3 (and C05/C07 lane rules) only; C09.R4 (the address helper's paths enumerated one by one) was added after this seed",
    "C03-r5": "C03.R12 got a partition on the operands' sign bits for conditions that go through a helper (`upper != sign_extension(ax)`) after this seed; before it the flag condition was undecided and the seed missed",
    "C07-r5": "the dispatch clause of C07.R7 (every call of the interpreter reaches the dispatch over the State variants) was added after this seed; before it the seed was missed",
    "C11-r4": "C11.R8 (the comment pattern, read from the driver's constants, evaluated on bounded comment bodies) was added after this seed; before it comment stripping was declared undecided and the seed missed",
    "C16-r4": "C16.R11 (the line table is built from the terminated text and the text is not changed afterwards) was added after this seed; before it the seed was missed",
    "C17-r5": "the one-byte-range clause of C17.R3 (the run restricted to `a -> a` still reaches the printing loop) was added after this seed; before it the seed was missed",
    "C18-r5": "a range index into the memory array got a bounds obligation (start <= end <= 2^20) and C18.R1 a witness search by input specialisation after this seed; before it the site was undecided and the seed missed",
    "C19-r4": "C19.R3 was extended after this seed to vectors collected from a hash container that are read in order without a loop (join, first, index, Debug); before it the seed was missed",
    "C04-r5": "reported by C11.R7 (a component of the source operand is dropped from the emitted operand), which existed before this seed; no rule of C04 sees the assembler side",
    "C06-r5": "reported by C09.R1 (abort-site census: `cx as i16 - 1` overflows for CX = 8000h), which existed before this seed; C06.R3 finds the value CX-1 mod 2^16 unchanged and is right about that",
    "C10-r4": "reported by C14.R5 (the forward-reference record must be keyed with the label name), which existed before this seed; C10's containment rules do not model the driver's label check",
    "C13-r4": "first reported by C19.R6 only (the name stays in the nesting set on the too-deep exit, a genuine consequence); C13.R8 (the depth test counts the open expansions so that a chain of 64 is still expanded) was added after this seed",
    "C15-r4": "reported by C16.R1 (a pushed line without source-map entry), which existed before this seed; C15's census leaves the driver's `source_map.get(..).unwrap()` undecided",
    "C08-r6": "the clause of C08.R4 that the return index is pushed on every path entering the procedure (the push, or the helper that always pushes, dominates the JMP outcome) was added after this seed; before it R4 only asked for *a* push of current+1 and the seed was missed",
    "C14-r5": "reported by C12.R2, whose clause `every accepting path of a labelled directive binds the label as DATA` was added after this seed; before it the seed was missed (the early return pushed nothing, so the path was set aside)",
    "C20-r5": "atom P of C20.R4 (the prompt may not depend on a comparison of the index with a remembered value) was added after this seed; before it the rows were undecided",
    "C12-r6": "MISSED: the silent wrap of the assembler's data counter (`wrapping_add` behind a guard relaxed by one) raises no overflow assertion, and C12.R4 only classifies assertions; a rule on the closed form of the new counter value is not written",
    "C20-r1": "caught through C17.R3 (the print range rule), which was extended after this seed; no rule of C20 decides it",
}
# alarms of other properties' checks on this seed, judged one by one
CROSS = {
    ("C06-r2", "C11"): "genuine: upper-case JNAE now means something else than jnae, which is C11's case-insensitivity clause",
    ("C11-r2", "C06"): "genuine: JNAE no longer tests CF=1, which is C06's predicate table",
    ("C09-r1", "C03"): "genuine: i16 division of -32768 by -1 aborts inside byte IDIV, which C03 (divide overflow raises INT 0) forbids",
    ("C13-r2", "C16"): "genuine: the diagnostic of a rejected macro use is attributed to another position, which C16's position clause covers",
    ("C16-r2", "C13"): "genuine: same defect seen from C13's `rejected with a diagnostic at the use site`",
    ("C15-r1", "C12"): "genuine: the loader's high-byte store no longer goes to (a+1) mod 2^20",
    ("C04-r2", "C11"): "genuine: the assembler drops a component of the source operand (`ds` override), which C11's `operands are preserved` clause covers; through it `ds[bp]` is addressed through SS (C04)",
    ("C12-r2", "C15"): "genuine: the 16-bit product 2*n aborts the assembler for n >= 32768 (C15: no input text aborts)",
    ("C04-r1", "C09"): "genuine: an index of exactly 2^20 aborts the emulator (C09: every memory access stays inside 1 MB)",
    ("C04-r1", "C05"): "genuine: with make_valid_address yielding exactly 1 MB the stack cell of POP is no longer (16*SS+SP) mod 2^20 (C05's stack clause; index 1048576 is outside the memory)",
    ("C04-r1", "C07"): "genuine: the same address helper gives the string elements' cells; at FFFFh:0010h the element is addressed outside the 1 MB space (C07: elements at DS:SI / ES:DI)",
    ("C04-r4", "C05"): "genuine: XCHG word [mem],reg stores the register's bytes in the wrong order (C05: XCHG is an exact exchange)",
    ("C09-r4", "C04"): "genuine: calculate_from_offset yields exactly 2^20 for seg*16+off = 100000h (C04: the physical address is below 2^20)",
    ("C09-r4", "C05"): "genuine: the stack cell of PUSH/POP is no longer (16*SS+SP) mod 2^20 when the sum is exactly 2^20",
    ("C09-r4", "C07"): "genuine: the string elements' cells are computed by the same helper (element addressed outside the 1 MB space)",
    ("C08-r4", "C11"): "genuine: a source instruction produces no emitted line (C11: one emitted line per source instruction)",
    ("C01-r3", "C10"): "genuine: the assembler emits a 16-bit immediate for `add word label, 300`, which the interpreter form no longer accepts (C10's containment)",
    ("C07-r3", "C09"): "genuine: `cx as i16 - 1` overflows for CX = 8000h: an arithmetic abort inside the interpreter (C09)",
    ("C09-r3", "C05"): "genuine: POP reads the high byte of the stack word at base+1 instead of (base+1) mod 2^20 (C05: the word at SS:SP)",
    ("C14-r3", "C11"): "genuine: the literal -200 in a byte position now means 56 (C11: a numeric literal means its value)",
    ("C16-r3", "C19"): "genuine: the helper object answers differently depending on earlier lookups (C19: objects give the same answer fresh or used)",
    ("C08-r5", "C20"): "genuine: a line served from the driver's target cache is executed on a path that assigns the index without passing the stepping prompt (C20: one prompt per executed instruction)",
    ("C09-r5", "C02"): "genuine: SHR by exactly the operand width aborts (C02: every count 0..255 is executed)",
    ("C04-r5", "C11"): "genuine: the displacement of `es[bx,si,5]` is dropped from the emitted operand (C11: operands are preserved); through it the operand resolves to the wrong location (C04)",
    ("C06-r5", "C09"): "genuine: LOOP with CX = 8000h aborts on an arithmetic overflow inside the interpreter (C09)",
    ("C10-r4", "C14"): "genuine: forward-reference records keyed by position only collide inside macro expansions, so a jump to an undefined label passes the driver's check (C14: rejected before anything executes)",
    ("C13-r4", "C19"): "genuine: on the too-deep exit the macro's name stays in the nesting set; the parser object then rejects a later, valid use of that macro (C19: objects do not leak state)",
    ("C15-r4", "C16"): "genuine: `nop` emits a line without a source-map entry: every later line is attributed to the line before it (C16), and the last emitted line has no entry at all (the abort C15 names)",
    ("C14-r4", "C16"): "genuine: the parked `call` is recorded with the production's bare lookaround; for a call that comes out of a macro expansion the driver's report would cite the line at that offset of the expanded text (the defect repaired for jumps in 6bb1ba6)",
    ("C15-r5", "C12"): "genuine: the u16 product 2*n overflows for n >= 32768 (C12.R4: counter arithmetic cannot overflow unnoticed)",
    ("C14-r5", "C12"): "genuine: the label of `db [0]` is not bound to the data counter (C12: labels resolve to the first byte of their definition)",
    ("C13-r5", "C14"): "genuine premise failure: the re-rendered argument contains `es:` followed by a blank, which the assembler's lexer reads as a label token inside an expansion; C14.R6 (no label can be defined by an expansion) no longer holds structurally, although here the parse then fails",
    ("C20-r1", "C17"): "genuine: a print range that leaves the 1 MB space is no longer reported (C17's last clause)",
}


def sections(text):
    out, cur = {}, "title"
    for line in text.splitlines():
        if line.startswith("#"):
            cur = line.lstrip("#").strip()
            out.setdefault(cur, [])
            if "title" not in out or not out.get("title"):
                out["title"] = [line.lstrip("#").strip()]
            continue
        out.setdefault(cur, []).append(line)
    return {k: "\n".join(v).strip() for k, v in out.items()}


def pick(sec, *words):
    for k, v in sec.items():
        if any(w in k.lower() for w in words) and k != "title":
            return v
    return ""


for sid in sorted(os.listdir(ROOT)):
    d = f"{ROOT}/{sid}"
    if not os.path.isdir(d) or not os.path.exists(f"{d}/patch.diff"):
        continue
    sec = sections(open(f"{d}/notes.md").read()) if os.path.exists(f"{d}/notes.md") else {}
    checks = json.load(open(f"{d}/checks.json")) if os.path.exists(f"{d}/checks.json") else {}
    prop = sid[:3]
    fired = {p: v["violations"] for p, v in checks.items() if v.get("rc") == 1 and v.get("violations")}
    other = {p: v for p, v in checks.items() if v.get("rc") not in (0, 1)}
    files = sorted(set(re.findall(r"^\+\+\+ b/(\S+)", open(f"{d}/patch.diff").read(), re.M)))
    v = ver.get(sid, {})
    meta = {
        "seed": sid,
        "property": prop,
        "round": int(sid[-1]),
        "title": sec.get("title", ""),
        "files_changed": files,
        "clause_broken": pick(sec, "clause")[:1500],
        "needs_to_manifest": pick(sec, "needed")[:2500],
        "why_tests_do_not_notice": pick(sec, "tests do not", "tests don't", "existing tests")[:1200],
        "origin": "written by a fresh sub-agent that was given only the property text and its own scratch worktree of /repo (nothing from /verif)",
        "verified_by_me": {
            "how": "tools/dev/seed_eval.sh: fresh `git worktree` of /repo under /tmp; demo/run.sh on the pristine tree, `git apply patch.diff`, "
                   "`cargo test --workspace --no-fail-fast --offline`, demo/run.sh on the changed tree; worktree and build output removed afterwards",
            "demo_on_pristine_tree_rc": v.get("demo_pristine_rc"),
            "demo_with_change_rc": v.get("demo_changed_rc"),
            "suite_with_change": v.get("suite_with_change"),
        },
        "checks_run": "tools/dev/seed_matrix.py: all 20 registered checks (quick tier) against a scratch copy with the change applied; see checks.json",
        "caught_by": fired,
        "caught": bool(fired.get(prop)) or bool(fired),
        "caught_by_own_property": bool(fired.get(prop)),
        "other_properties_that_fired": {p: CROSS.get((sid, p), "not judged") for p in fired if p != prop},
        "incomplete_or_error": {p: x.get("incomplete") or x.get("rc") for p, x in other.items()},
        "note": AFTER.get(sid, "caught by rules that existed before this seed was written"),
    }
    json.dump(meta, open(f"{d}/meta.json", "w"), indent=1)
    print(sid, "caught" if meta["caught"] else "MISSED", sorted(fired), "|", meta["note"][:60])
