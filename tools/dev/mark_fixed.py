#!/usr/bin/env python3
"""mark_fixed.py <commit> <what failed> <prop>:<key-substring> [...]  — turn finding lines into one fixed line per property"""
import sys
commit, what = sys.argv[1], sys.argv[2]
specs = [a.split(":", 1) for a in sys.argv[3:]]
p = "/verif/known_findings.tsv"
lines = open(p).read().split("\n")
out = []
hit = {}
for l in lines:
    parts = l.split("\t")
    if parts[0] == "finding" and any(parts[1] == pr and sub in parts[2] for pr, sub in specs):
        hit.setdefault(parts[1], []).append(parts[2])
        continue
    out.append(l)
while out and out[-1] == "":
    out.pop()
for pr, keys in hit.items():
    out.append(f"fixed\t{pr}\t{commit}\t{what}  [was: {'; '.join(keys)}]")
open(p, "w").write("\n".join(out) + "\n")
print({k: len(v) for k, v in hit.items()})
