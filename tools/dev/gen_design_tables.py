#!/usr/bin/env python3
"""Regenerates the tables of DESIGN.md §12 (seeded changes) between the markers <!-- SEEDS:BEGIN/END --> from
/verif/seeded/*/meta.json."""
import json, os, re

ROOT = "/verif/seeded"
TITLES = {
    "C01-r5": "set_all_flags stores through a new mask constant FLAG_STATUS = 0CD5h that wrongly contains DF: every ADD..DEC clears the direction flag",
    "C02-r5": "RCL/RCR mask the count with 1Fh before the modulo (80186 behaviour): counts of 32 and more rotate by the wrong amount",
    "C03-r5": "word IMUL compares the product's upper half with the sign extension of the *old* AX (helper shared with CWD): CF/OF wrong when the low word's sign differs from the multiplicand's",
    "C04-r5": "assembler: a segment-overridden based-indexed operand is emitted with displacement 0 (`es[bx,si,5]` -> `es:[bx,si,0]`)",
    "C05-r5": "`pop <reg>` loads the register before advancing SP: `pop sp` ends as popped word + 2",
    "C06-r5": "LOOP/LOOPE/LOOPNE decrement CX in i16: CX = 8000h aborts on overflow",
    "C07-r5": "the driver finishes a repeated line in an inner loop and drops its last outcome: the line is issued once more, a ZF-terminated REPE/REPNE restarts",
    "C08-r5": "the driver caches the target of a jmp/call line and skips the interpreter the second time: a repeated `call` pushes no return index",
    "C09-r5": "SHR computes `val >> num` in the operand's own width: a count equal to the width aborts",
    "C10-r4": "forward references kept in a BTreeMap keyed by position: jumps from different macro expansions collide, an undefined target passes the label check",
    "C11-r4": "comment stripping regex rewritten to respect quotes: a comment with an odd number of `\"` is not removed (or swallowed into a string)",
    "C12-r5": "loader `set n` is skipped when DS already equals n, and with it the restart of the offset counter; the assembler still restarts its own",
    "C13-r4": "`!insert(..)` then `len() >= 64`: the nesting limit silently drops from 64 to 63 levels",
    "C14-r4": "a `call` of a name defined later is parked with the forward jumps and resolved against labels *or* procedures: `call <label>` and `jmp <procedure>` are accepted",
    "C15-r4": "`nop` is accepted and emitted without a source-map entry: the driver's map lookup for the last lines hits None (abort)",
    "C16-r4": "the driver terminates the text with a newline only *after* the line table was built from it: messages about an unterminated last line show the line before",
    "C17-r5": "`print mem a -> b` rejects `start >= end`: the one-byte range `a -> a` prints nothing",
    "C18-r5": "AH=0Ah stores the line with one `copy_from_slice` into `mem[data..data+n]`: a buffer crossing FFFFFh aborts instead of wrapping",
    "C19-r4": "the recursion diagnostic lists the open expansions by iterating the HashSet: the text differs from run to run",
    "C20-r4": "user_interface returns a bool instead of exiting; the INT 3 call site ignores it: q / end of input at a breakpoint prompt does not stop the emulator",
    "C04-r6": "assembler emits `[b,i]` without the padding 0, new interpreter production for it takes DS as segment: `[bp,si]` no longer defaults to SS",
    "C08-r6": "`call` goes through a helper that does not push a return index equal to the one on top of the stack: direct self-recursion through one call line loses activations",
    "C10-r5": "assembler stops padding a missing displacement; the interpreter accepts `[b,i]` but its segment-override sibling still requires a displacement: `es[bx,si]` is emitted and then refused",
    "C12-r6": "`db [n]` / `db [v,n]` accept a total of exactly 65536 bytes and advance the counter with wrapping_add: later labels resolve to 0, 1, ..",
    "C13-r5": "segment-overridden based-indexed operands are emitted as `es: [..]` (blank after the colon): `general_string` no longer undoes the colon, such a macro argument is refused",
    "C14-r5": "`db [0]` / `dw [0]` return early before the label is re-typed as data: the label stays a code label, jumps to it and `start: dw [0]` are accepted",
    "C15-r5": "the 64 KB check of `dw [n]` moved into a helper called with `2*n` computed in u16: counts of 32768 and more abort the assembler",
    "C20-r5": "the driver remembers the index it last prompted for and skips the prompt when the same index executes again: `w: loop w` runs all its iterations on one `next`",
    "C04-r1": "make_valid_address wraps with one subtraction guarded by `> MB` instead of `% MB`: exactly 1 MB (FFFFh:0010h) stays 1048576",
    "C07-r1": "word MOVS takes its high byte at physical address+1 instead of offset+1: differs when SI/DI = FFFFh",
    "C13-r1": "all parameters replaced in one pass with one regex `\\ba|b\\b` — the alternation is not grouped",
    "C15-r1": "the loader's `dw n` stores the high byte at `addr+1` instead of `inc_addr(addr,1)`: aborts at FFFFFh",
    "C19-r2": "`!insert(..)` replaces contains+insert: the too-deep exit leaves the macro name in the nesting set",
    "C20-r1": "`print mem :n` bound check `end >= MB` became `end > MB`: a prompt command can abort the emulator",
    "C03-r2": "AAA lets the +6 carry out of AL into AH",
    "C06-r2": "upper-case `JNAE` is preprocessed to `jbe` instead of `jb`",
    "C11-r2": "upper-case JNAE alias maps to the wrong operation (independent author, same idea as C06-r2)",
    "C13-r2": "diagnostics of a rejected macro use leave the use site",
    "C14-r2": "macro bodies may contain ':' (a label can be defined by an expansion)",
    "C15-r2": "`print mem start:offset` operands are no longer reduced modulo 1 MB in the preprocessor",
    "C16-r2": "macro-expansion diagnostics cite a position inside the expanded text",
    "C17-r2": "DS-relative `print mem : n` truncates the segment base to 16 bits",
    "C08-r1": "a jump that lands on itself silently ends the program",
    "C01-r2": "word SBB computes ZF from the full-width difference instead of the 16-bit result (0 - FFFFh - 1)",
    "C02-r2": "word SHR by more than 16 returns early and skips the SF/ZF/PF update",
    "C04-r2": "the assembler drops an explicit `ds` override: `ds[bp]` is then addressed through SS",
    "C05-r2": "XLAT sign-extends AL (wrong table entry for AL >= 80h)",
    "C07-r2": "CMPS/SCAS clear the flags with a mask that includes DF: a repeated compare with DF=1 turns round",
    "C08-r2": "the implied ret is omitted when the body ends in jmp: a label before `}` falls into the next procedure",
    "C10-r2": "db/dw strings accept any character; the loader still requires ASCII and rejects the emitted line",
    "C12-r2": "`dw [n]` computes its size as a 16-bit `2*n`: aborts (debug) or wraps the data counter for n >= 32768",
    "C18-r2": "the read helper treats end of input (Ok(0)) like a failed read: AL / the count byte keep stale values",
    "C20-r2": "a blank line at the prompt is treated like end of input and quits the emulator",
    "C01-r3": "interpreter form `<op> word label, imm` reads its immediate as s_byte_num: immediates above 255 are not accepted there",
    "C02-r3": "word-memory shift by CL takes the count from all of CX",
    "C03-r3": "`div/idiv word [mem]` swallows the divide error (`if f(..).is_ok()`): no INT 0",
    "C04-r3": "segment-overridden displaced offsets are added in usize: no wrap at 16 bits",
    "C05-r3": "SAHF keeps only bits 12..15 of FLAGS: TF/IF/DF/OF are cleared",
    "C06-r3": "LOOP decrements CX with word_sub: the arithmetic flags are rewritten",
    "C07-r3": "REP counts in i16 (`cx as i16 - 1 < 0`): CX >= 8001h repeats zero times, CX = 8000h aborts",
    "C08-r3": "no guard hlt is appended when the program already ends in hlt: a label after it indexes past the end",
    "C09-r3": "POP to memory reads the high byte at base+1 without the 1 MB wrap",
    "C10-r3": "`print mem :n` returns Err for DS*16+n >= 1 MB: a run-time condition reaches the internal-error path",
    "C11-r3": "negative decimals parse the magnitude and negate: -32768 / -128 are rejected",
    "C12-r3": "loader `db [n]` / `db [v,n]` fill a slice clipped at 1 MB instead of wrapping",
    "C13-r3": "number macro arguments go through s_word_num (i16): 8000h..FFFFh are substituted as negative numbers",
    "C14-r3": "s_byte_num parses its negative literal as i16 and casts: -129..-32768 are accepted",
    "C15-r3": "preprocess echoes at most 80 bytes of the offending line: the cut can fall inside a UTF-8 sequence",
    "C16-r3": "LexerHelper remembers the last line in a Cell: a lookup for an earlier position answers with the remembered line",
    "C17-r3": "`print mem a -> b` breaks rows by address instead of by count",
    "C18-r3": "AH=0Ah compares `input.len() as u8` with the capacity: lines of 256 bytes or more wrap",
    "C19-r3": "VM::default() builds an all-zero machine; new() starts from it",
    "C01-r4": "byte ADC takes carry-out from `op1.overflowing_add(op2)` only: op1+op2 = FFh with CF=1 loses the carry",
    "C02-r4": "word TEST computes SF as `res > 8000h`: a result of exactly 8000h clears SF",
    "C03-r4": "DAS makes its high-digit test on the AL it was entered with instead of the adjusted AL",
    "C07-r4": "CMPS/SCAS compute OF as `|src - dest| > MAX`: a difference of exactly -128 / -32768 sets OF",
    "C04-r4": "`xchg word [mem], reg` writes the register back through `separate_bytes` destructured as (lb,hb): bytes swapped",
    "C05-r4": "`pop word [mem]` advances SP from the physical address instead of SP: wrong for SS with non-zero low 12 bits",
    "C06-r4": "a taken jump to its own line returns HALT: `d: loop d` stops after one pass",
    "C08-r4": "a flag instruction that repeats the previously emitted line is dropped: a label between the two lands one instruction late",
    "C09-r4": "calculate_from_offset wraps with `if addr > MB`: exactly 100000h is returned unchanged and indexes past the memory",
    "C12-r4": "loader `db \"..\"` strips quotes with trim_matches: a string beginning or ending in a quote loses bytes",
    "C17-r4": "print's raw_addr reduces with `% 0xFFFFF`: the address FFFFFh becomes 0",
    "C18-r4": "driver guard for INT 21h is `ah > 2 && ah != 0Ah`: AH=0 is passed to the service and silently ignored",
    "C20-r3": "stepping condition tests `out.code[idx] != \"hlt\"`: a hlt written by the user gets no prompt",
}
rows = []
for sid in sorted(os.listdir(ROOT)):
    mp = f"{ROOT}/{sid}/meta.json"
    if not os.path.exists(mp):
        continue
    m = json.load(open(mp))
    title = re.sub(r"^(Seed\s+)?C\d\d\s*(seed)?\s*(notes)?\s*[-—:#(]*\s*", "", m["title"], flags=re.I).strip() or "(see notes.md)"
    title = TITLES.get(sid, title)
    if len(title) < 8:
        # title line carries no description: first sentence of the change section
        title = (m.get("clause_broken") or "").split("\n")[0][:110]
    rules = []
    for p, ks in sorted(m["caught_by"].items()):
        rs = sorted({k.split("|")[0] for k in ks})
        dets = sorted({k.split("|")[-1].split(":")[0] for k in ks})
        rules.append(f"**{', '.join(rs)}** ({'; '.join(dets)[:70]})")
    others = "; ".join(f"{p}: {why.split(':')[0]}" for p, why in m["other_properties_that_fired"].items())
    rows.append(f"| {sid} | {title[:150]} | {' / '.join(rules) if rules else '**MISSED**'} | {m['note'].replace(' after this seed', '')[:140]} |")
table = ["| seed | change (one line) | check, rule and finding that report it | rule existed before the seed? |", "|---|---|---|---|"] + rows
p = "/verif/DESIGN.md"
s = open(p).read()
a, b = s.index("<!-- SEEDS:BEGIN -->"), s.index("<!-- SEEDS:END -->")
s = s[:a] + "<!-- SEEDS:BEGIN -->\n" + "\n".join(table) + "\n" + s[b:]
open(p, "w").write(s)
print(len(rows), "rows")
