#!/usr/bin/env python3
"""Regenerates the tables of DESIGN.md §12 (seeded changes) between the markers <!-- SEEDS:BEGIN/END --> from
/verif/seeded/*/meta.json."""
import json, os, re

ROOT = "/verif/seeded"
TITLES = {
    "C04-r1": "make_valid_address wraps with one subtraction guarded by `> MB` instead of `% MB`: exactly 1 MB (FFFFh:0010h) stays 1048576",
    "C07-r1": "word MOVS takes its high byte at physical address+1 instead of offset+1: differs when SI/DI = FFFFh",
    "C13-r1": "all parameters replaced in one pass with one regex `\\ba|b\\b` — the alternation is not grouped",
    "C15-r1": "the loader's `dw n` stores the high byte at `addr+1` instead of `inc_addr(addr,1)`: aborts at FFFFFh",
    "C19-r2": "`!insert(..)` replaces contains+insert: the too-deep exit leaves the macro name in the nesting set",
    "C20-r1": "`print mem :n` bound check `end >= MB` became `end > MB`: a prompt command can abort the emulator",
    "C03-r2": "AAA lets the +6 carry out of AL into AH",
    "C06-r2": "upper-case `JNAE` is preprocessed to `jbe` instead of `jb`",
    "C11-r2": "upper-case JNAE alias maps to the wrong operation (independent author, same idea as C06-r2)",
    "C13-r2": "diagnostics of a rejected macro use leave the use site",
    "C14-r2": "macro bodies may contain ':' (a label can be defined by an expansion)",
    "C15-r2": "`print mem start:offset` operands are no longer reduced modulo 1 MB in the preprocessor",
    "C16-r2": "macro-expansion diagnostics cite a position inside the expanded text",
    "C17-r2": "DS-relative `print mem : n` truncates the segment base to 16 bits",
    "C08-r1": "a jump that lands on itself silently ends the program",
    "C01-r2": "word SBB computes ZF from the full-width difference instead of the 16-bit result (0 - FFFFh - 1)",
    "C02-r2": "word SHR by more than 16 returns early and skips the SF/ZF/PF update",
    "C04-r2": "the assembler drops an explicit `ds` override: `ds[bp]` is then addressed through SS",
    "C05-r2": "XLAT sign-extends AL (wrong table entry for AL >= 80h)",
    "C07-r2": "CMPS/SCAS clear the flags with a mask that includes DF: a repeated compare with DF=1 turns round",
    "C08-r2": "the implied ret is omitted when the body ends in jmp: a label before `}` falls into the next procedure",
    "C10-r2": "db/dw strings accept any character; the loader still requires ASCII and rejects the emitted line",
    "C12-r2": "`dw [n]` computes its size as a 16-bit `2*n`: aborts (debug) or wraps the data counter for n >= 32768",
    "C18-r2": "the read helper treats end of input (Ok(0)) like a failed read: AL / the count byte keep stale values",
    "C20-r2": "a blank line at the prompt is treated like end of input and quits the emulator",
}
rows = []
for sid in sorted(os.listdir(ROOT)):
    mp = f"{ROOT}/{sid}/meta.json"
    if not os.path.exists(mp):
        continue
    m = json.load(open(mp))
    title = re.sub(r"^(Seed\s+)?C\d\d\s*(seed)?\s*(notes)?\s*[-—:#(]*\s*", "", m["title"], flags=re.I).strip() or "(see notes.md)"
    title = TITLES.get(sid, title)
    if len(title) < 8:
        # title line carries no description: first sentence of the change section
        title = (m.get("clause_broken") or "").split("\n")[0][:110]
    rules = []
    for p, ks in sorted(m["caught_by"].items()):
        rs = sorted({k.split("|")[0] for k in ks})
        dets = sorted({k.split("|")[-1].split(":")[0] for k in ks})
        rules.append(f"**{', '.join(rs)}** ({'; '.join(dets)[:70]})")
    others = "; ".join(f"{p}: {why.split(':')[0]}" for p, why in m["other_properties_that_fired"].items())
    rows.append(f"| {sid} | {title[:150]} | {' / '.join(rules) if rules else '**MISSED**'} | {m['note'].replace(' after this seed', '')[:140]} |")
table = ["| seed | change (one line) | check, rule and finding that report it | rule existed before the seed? |", "|---|---|---|---|"] + rows
p = "/verif/DESIGN.md"
s = open(p).read()
a, b = s.index("<!-- SEEDS:BEGIN -->"), s.index("<!-- SEEDS:END -->")
s = s[:a] + "<!-- SEEDS:BEGIN -->\n" + "\n".join(table) + "\n" + s[b:]
open(p, "w").write(s)
print(len(rows), "rows")
