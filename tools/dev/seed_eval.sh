#!/bin/bash
# seed_eval.sh <seed-dir containing patch.diff and demo/> <name> [props...]
# 1. confirms: patch applies, suite passes with it, demo fails with it and passes without it (scratch worktree)
# 2. runs the checks (all 20 unless props given) against the patched scratch tree and prints VIOLATION keys
SEED=$1; NAME=$2; shift 2; PROPS="$@"
[ -z "$PROPS" ] && PROPS="C01 C02 C03 C04 C05 C06 C07 C08 C09 C10 C11 C12 C13 C14 C15 C16 C17 C18 C19 C20"
WT=/tmp/sv/$NAME
rm -rf $WT; mkdir -p /tmp/sv
git -C /repo worktree prune
git -C /repo worktree add -q --detach $WT HEAD || exit 9
cd $WT
export CARGO_TARGET_DIR=/tmp/sv/target
echo "== demo on pristine tree"
if [ -f $SEED/demo/run.sh ]; then (sh $SEED/demo/run.sh $WT > /tmp/sv/$NAME.pristine.log 2>&1; echo "demo pristine rc=$?"); fi
echo "== apply"
git apply $SEED/patch.diff || { echo "PATCH DOES NOT APPLY"; exit 8; }
git diff --stat | tail -3
echo "== suite with the change"
cargo test --workspace --no-fail-fast --offline 2>&1 | grep -E "^test result|FAILED|error(\[|:)" | head -5
echo "== demo on changed tree"
if [ -f $SEED/demo/run.sh ]; then (sh $SEED/demo/run.sh $WT > /tmp/sv/$NAME.changed.log 2>&1; echo "demo changed rc=$?"); fi
echo "== checks on the changed tree"
cd /verif
for p in $PROPS; do
  out=$(VERIF_REPO=$WT VERIF_EVIDENCE_DIR=/tmp/sv/ev_$NAME VERIF_NO_SELFTEST=1 ./check $p 2>&1); rc=$?
  if [ $rc -ne 0 ]; then echo "$p rc=$rc"; echo "$out" | grep -E "^  rule|ANALYSIS-INCOMPLETE" | cut -c1-300; python3 - <<PY
import json,glob
for f in sorted(glob.glob('/tmp/sv/ev_$NAME/replay/$p-*.json')): print('   KEY', json.load(open(f))['key'])
PY
  fi
done
git -C /repo worktree remove --force $WT
rm -rf /tmp/sv/ev_$NAME
