#!/bin/bash
# refactor_eval.sh <diff> <name>: a behaviour-preserving refactoring must leave the suite green and every check silent
DIFF=$1; NAME=$2
WT=/tmp/rv/$NAME
rm -rf $WT; mkdir -p /tmp/rv
git -C /repo worktree prune
git -C /repo worktree add -q --detach $WT HEAD || exit 9
cd $WT
git apply $DIFF || { echo "PATCH DOES NOT APPLY"; git -C /repo worktree remove --force $WT; exit 8; }
git diff --stat | tail -1
CARGO_TARGET_DIR=/tmp/rv/target_${SLOT:-0} cargo test --workspace --no-fail-fast --offline 2>&1 | grep -E "^test result: .*passed|FAILED|error(\[|:)" | head -3
cd /verif
for p in C01 C02 C03 C04 C05 C06 C07 C08 C09 C10 C11 C12 C13 C14 C15 C16 C17 C18 C19 C20; do
  out=$(VERIF_REPO=$WT VERIF_EVIDENCE_DIR=/tmp/rv/ev_$NAME VERIF_NO_SELFTEST=1 ./check $p 2>&1); rc=$?
  if [ $rc -ne 0 ]; then echo "ALARM $p rc=$rc"; echo "$out" | grep -E "^  rule|ANALYSIS-INCOMPLETE" | cut -c1-260 | head -4; fi
done
echo "done $NAME"
git -C /repo worktree remove --force $WT
rm -rf /tmp/rv/ev_$NAME
