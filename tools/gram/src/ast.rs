// syn AST -> JSON (a simplified, untyped expression tree for the action-AST evaluator).
use quote::ToTokens;
use serde_json::{json, Value};
use syn::punctuated::Punctuated;
use syn::{parse::Parser, Block, Expr, Pat, Stmt, Token};

pub fn parse_code(code: &str) -> Value {
    let wrapped = format!("{{ {}\n }}", code);
    match syn::parse_str::<Block>(&wrapped) {
        Ok(b) => block(&b),
        Err(e) => json!({"k":"parse_error","msg":format!("{}", e)}),
    }
}

fn toks<T: ToTokens>(t: &T) -> String {
    t.to_token_stream().to_string()
}

fn line<T: syn::spanned::Spanned>(t: &T) -> usize {
    t.span().start().line
}

fn path_segs(p: &syn::Path) -> Vec<String> {
    p.segments.iter().map(|s| s.ident.to_string()).collect()
}

pub fn block(b: &Block) -> Value {
    let stmts: Vec<Value> = b.stmts.iter().map(stmt).collect();
    json!({"k":"block","stmts":stmts,"line":line(b)})
}

fn stmt(s: &Stmt) -> Value {
    match s {
        Stmt::Local(l) => {
            let (p, ty) = match &l.pat {
                Pat::Type(pt) => (pat(&pt.pat), Some(toks(&pt.ty))),
                other => (pat(other), None),
            };
            let (init, els) = match &l.init {
                Some(i) => (Some(expr(&i.expr)), i.diverge.as_ref().map(|d| expr(&d.1))),
                None => (None, None),
            };
            json!({"k":"local","pat":p,"ty":ty,"init":init,"else":els,"line":line(l)})
        }
        Stmt::Item(i) => json!({"k":"item","text":toks(i)}),
        Stmt::Expr(e, semi) => json!({"k":"expr","e":expr(e),"semi":semi.is_some(),"line":line(e)}),
        Stmt::Macro(m) => json!({"k":"expr","e":mac(&m.mac),"semi":m.semi_token.is_some(),"line":line(m)}),
    }
}

fn mac(m: &syn::Macro) -> Value {
    let name = path_segs(&m.path).join("::");
    let parser = Punctuated::<Expr, Token![,]>::parse_terminated;
    match parser.parse2(m.tokens.clone()) {
        Ok(args) => {
            let a: Vec<Value> = args.iter().map(expr).collect();
            json!({"k":"macro","name":name,"args":a,"line":line(m)})
        }
        Err(_) => json!({"k":"macro","name":name,"tokens":m.tokens.to_string(),"line":line(m)}),
    }
}

fn binop(op: &syn::BinOp) -> String {
    toks(op)
}

pub fn expr(e: &Expr) -> Value {
    let ln = line(e);
    match e {
        Expr::Lit(l) => match &l.lit {
            syn::Lit::Str(s) => json!({"k":"lit","ty":"str","v":s.value()}),
            syn::Lit::Int(i) => {
                let v: Value = match i.base10_parse::<i128>() {
                    Ok(v) => json!(v as i64),
                    Err(_) => json!(i.base10_digits()),
                };
                json!({"k":"lit","ty":"int","v":v,"suffix":i.suffix()})
            }
            syn::Lit::Bool(b) => json!({"k":"lit","ty":"bool","v":b.value}),
            syn::Lit::Char(c) => json!({"k":"lit","ty":"char","v":c.value().to_string()}),
            other => json!({"k":"lit","ty":"other","v":toks(other)}),
        },
        Expr::Path(p) => json!({"k":"path","segs":path_segs(&p.path)}),
        Expr::Call(c) => {
            json!({"k":"call","f":expr(&c.func),"args":c.args.iter().map(expr).collect::<Vec<_>>(),"line":ln})
        }
        Expr::MethodCall(m) => json!({
            "k":"mcall","recv":expr(&m.receiver),"m":m.method.to_string(),
            "args":m.args.iter().map(expr).collect::<Vec<_>>(),
            "turbofish": m.turbofish.as_ref().map(toks), "line":ln}),
        Expr::Macro(m) => mac(&m.mac),
        Expr::If(i) => json!({
            "k":"if","cond":expr(&i.cond),"then":block(&i.then_branch),
            "else": i.else_branch.as_ref().map(|(_, e)| expr(e)), "line":ln}),
        Expr::Let(l) => json!({"k":"let_cond","pat":pat(&l.pat),"e":expr(&l.expr)}),
        Expr::Match(m) => {
            let arms: Vec<Value> = m
                .arms
                .iter()
                .map(|a| {
                    json!({"pat":pat(&a.pat),"guard":a.guard.as_ref().map(|(_, g)| expr(g)),"body":expr(&a.body),"line":line(a)})
                })
                .collect();
            json!({"k":"match","e":expr(&m.expr),"arms":arms,"line":ln})
        }
        Expr::Block(b) => block(&b.block),
        Expr::Unsafe(b) => {
            let mut v = block(&b.block);
            v["unsafe"] = json!(true);
            v
        }
        Expr::Return(r) => json!({"k":"return","e":r.expr.as_ref().map(|e| expr(e)),"line":ln}),
        Expr::Assign(a) => json!({"k":"assign","l":expr(&a.left),"r":expr(&a.right),"line":ln}),
        Expr::Binary(b) => json!({"k":"bin","op":binop(&b.op),"l":expr(&b.left),"r":expr(&b.right),"line":ln}),
        Expr::Unary(u) => json!({"k":"un","op":toks(&u.op),"e":expr(&u.expr)}),
        Expr::Cast(c) => json!({"k":"cast","e":expr(&c.expr),"ty":toks(&c.ty)}),
        Expr::Field(f) => json!({"k":"field","e":expr(&f.base),"m":toks(&f.member)}),
        Expr::Index(i) => json!({"k":"index","e":expr(&i.expr),"i":expr(&i.index)}),
        Expr::Range(r) => json!({
            "k":"range","lo":r.start.as_ref().map(|e| expr(e)),"hi":r.end.as_ref().map(|e| expr(e)),
            "incl": matches!(r.limits, syn::RangeLimits::Closed(_))}),
        Expr::Reference(r) => json!({"k":"ref","mut":r.mutability.is_some(),"e":expr(&r.expr)}),
        Expr::Paren(p) => expr(&p.expr),
        Expr::Group(g) => expr(&g.expr),
        Expr::Tuple(t) => json!({"k":"tuple","elems":t.elems.iter().map(expr).collect::<Vec<_>>()}),
        Expr::Array(a) => json!({"k":"array","elems":a.elems.iter().map(expr).collect::<Vec<_>>()}),
        Expr::Repeat(r) => json!({"k":"repeat","e":expr(&r.expr),"n":expr(&r.len)}),
        Expr::ForLoop(f) => json!({"k":"for","pat":pat(&f.pat),"iter":expr(&f.expr),"body":block(&f.body),"line":ln}),
        Expr::While(w) => json!({"k":"while","cond":expr(&w.cond),"body":block(&w.body),"line":ln}),
        Expr::Loop(l) => json!({"k":"loop","body":block(&l.body),"line":ln}),
        Expr::Break(b) => json!({"k":"break","e":b.expr.as_ref().map(|e| expr(e))}),
        Expr::Continue(_) => json!({"k":"continue"}),
        Expr::Closure(c) => json!({
            "k":"closure","params":c.inputs.iter().map(pat).collect::<Vec<_>>(),"body":expr(&c.body)}),
        Expr::Struct(s) => json!({
            "k":"struct","path":path_segs(&s.path),
            "fields": s.fields.iter().map(|f| json!([toks(&f.member), expr(&f.expr)])).collect::<Vec<_>>(),
            "rest": s.rest.as_ref().map(|e| expr(e))}),
        Expr::Try(t) => json!({"k":"try","e":expr(&t.expr)}),
        other => json!({"k":"other","text":toks(other),"line":ln}),
    }
}

pub fn pat(p: &Pat) -> Value {
    match p {
        Pat::Ident(i) => json!({
            "k":"ident","name":i.ident.to_string(),"mut":i.mutability.is_some(),"by_ref":i.by_ref.is_some(),
            "sub": i.subpat.as_ref().map(|(_, s)| pat(s))}),
        Pat::Wild(_) => json!({"k":"wild"}),
        Pat::TupleStruct(t) => json!({
            "k":"tuple_struct","path":path_segs(&t.path),"elems":t.elems.iter().map(pat).collect::<Vec<_>>()}),
        Pat::Path(p) => json!({"k":"path","segs":path_segs(&p.path)}),
        Pat::Tuple(t) => json!({"k":"tuple","elems":t.elems.iter().map(pat).collect::<Vec<_>>()}),
        Pat::Lit(l) => json!({"k":"lit","e":expr(&Expr::Lit(l.clone()))}),
        Pat::Struct(s) => json!({
            "k":"struct","path":path_segs(&s.path),
            "fields": s.fields.iter().map(|f| json!([toks(&f.member), pat(&f.pat)])).collect::<Vec<_>>(),
            "rest": s.rest.is_some()}),
        Pat::Reference(r) => json!({"k":"ref","p":pat(&r.pat)}),
        Pat::Or(o) => json!({"k":"or","cases":o.cases.iter().map(pat).collect::<Vec<_>>()}),
        Pat::Type(t) => pat(&t.pat),
        Pat::Paren(p) => pat(&p.pat),
        Pat::Rest(_) => json!({"k":"rest"}),
        other => json!({"k":"other","text":toks(other)}),
    }
}


/// Functions and methods of plain Rust source files, for inlining helper calls made by grammar actions.
pub fn rust_fns(path: &str, src: &str) -> Vec<Value> {
    let mut out = Vec::new();
    let file = match syn::parse_file(src) {
        Ok(f) => f,
        Err(_) => return out,
    };
    fn sig_params(sig: &syn::Signature) -> Vec<Value> {
        sig.inputs
            .iter()
            .map(|a| match a {
                syn::FnArg::Receiver(_) => json!("self"),
                syn::FnArg::Typed(t) => match &*t.pat {
                    Pat::Ident(i) => json!(i.ident.to_string()),
                    other => json!(toks(other)),
                },
            })
            .collect()
    }
    fn walk(items: &[syn::Item], path: &str, out: &mut Vec<Value>) {
        for it in items {
            match it {
                syn::Item::Fn(f) => out.push(json!({
                    "file": path, "name": f.sig.ident.to_string(), "self_ty": Value::Null,
                    "params": sig_params(&f.sig), "ret": toks(&f.sig.output), "body": block(&f.block), "line": line(f)})),
                syn::Item::Impl(im) => {
                    if im.trait_.is_some() {
                        continue;
                    }
                    let ty = toks(&*im.self_ty);
                    for ii in &im.items {
                        if let syn::ImplItem::Fn(f) = ii {
                            out.push(json!({
                                "file": path, "name": f.sig.ident.to_string(), "self_ty": ty,
                                "params": sig_params(&f.sig), "ret": toks(&f.sig.output), "body": block(&f.block), "line": line(f)}));
                        }
                    }
                }
                syn::Item::Mod(m) => {
                    if let Some((_, items)) = &m.content {
                        walk(items, path, out);
                    }
                }
                syn::Item::Const(c) => out.push(json!({
                    "file": path, "kind": "const", "name": c.ident.to_string(), "self_ty": Value::Null,
                    "ty": toks(&*c.ty), "expr": expr(&c.expr), "line": line(c)})),
                syn::Item::Static(c) => out.push(json!({
                    "file": path, "kind": "const", "name": c.ident.to_string(), "self_ty": Value::Null,
                    "ty": toks(&*c.ty), "expr": expr(&c.expr), "line": line(c)})),
                _ => {}
            }
        }
    }
    walk(&file.items, path, &mut out);
    out
}
