// gram: grammar front end (engine G) and action-AST dumper (engine A, front half).
//   gram dump  <file.lalrpop>            -> JSON on stdout (grammar, productions, actions, terminals, ASTs)
//   gram parse <file.lalrpop> < lines    -> per input line (JSON array of strings on stdin) a JSON verdict
//   gram ast   < rust-expression-text    -> JSON AST (self-test helper)
// Nothing of the analysed repository is compiled or run: four text files are read.
use lalrpop::build::parse_and_normalize_grammar;
use lalrpop::file_text::FileText;
use lalrpop::grammar::parse_tree::{MatchMapping, TerminalLiteral, TerminalString};
use lalrpop::grammar::repr as r;
use lalrpop::lr1;
use lalrpop::lr1::lookahead::Token as LToken;
use lalrpop::session::Session;
use lalrpop::tls::Tls;
use serde_json::{json, Value};
use std::io::Read;
use std::path::PathBuf;
use std::rc::Rc;

mod ast;

fn term_name(t: &TerminalString) -> String {
    format!("{}", t)
}

fn sym_json(s: &r::Symbol) -> Value {
    match s {
        r::Symbol::Nonterminal(n) => json!({"t":"nt","name":format!("{}", n)}),
        r::Symbol::Terminal(t) => json!({"t":"term","name":term_name(t)}),
    }
}

fn line_of(text: &str, off: usize) -> usize {
    text[..off.min(text.len())].bytes().filter(|b| *b == b'\n').count() + 1
}

fn load(path: &str) -> (Rc<Session>, Rc<FileText>, r::Grammar, Tls) {
    let mut session = Session::new();
    session.emit_rerun_directives = false;
    let session = Rc::new(session);
    let ft = Rc::new(FileText::from_path(PathBuf::from(path)).expect("read grammar"));
    let tls = Tls::install(session.clone(), ft.clone());
    let g = parse_and_normalize_grammar(&session, &ft).expect("normalize");
    (session, ft, g, tls)
}

fn lexer_entries(g: &r::Grammar) -> Vec<(String, bool, Option<TerminalString>, String)> {
    // exactly what intern_token::compile emits into the generated parser
    let it = g.intern_token.as_ref().expect("intern token");
    let mut v = Vec::new();
    let mut contains_skip = false;
    for me in it.match_entries.iter() {
        let (re, kind) = match me.match_literal {
            TerminalLiteral::Quoted(ref s) => (lalrpop::lexer::re::parse_literal(s), "lit"),
            TerminalLiteral::Regex(ref s) => (lalrpop::lexer::re::parse_regex(s).unwrap(), "regex"),
        };
        let (skip, term) = match me.user_name {
            MatchMapping::Terminal(ref t) => (false, Some(t.clone())),
            MatchMapping::Skip => (true, None),
        };
        contains_skip |= skip;
        v.push((format!("^({})", re), skip, term, kind.to_string()));
    }
    if !contains_skip {
        v.push((r"^(\s*)".to_string(), true, None, "skip".to_string()));
    }
    v
}

fn dump(path: &str) {
    let (_s, ft, g, _tls) = load(path);
    let text = ft.text().clone();
    let mut actions = Vec::new();
    for (i, a) in g.action_fn_defns.iter().enumerate() {
        let mut o = json!({"idx": i, "fallible": a.fallible, "ret": format!("{}", a.ret_type)});
        match &a.kind {
            r::ActionFnDefnKind::User(u) => {
                o["kind"] = json!("user");
                o["arg_names"] = json!(u.arg_patterns.iter().map(|n| n.name.to_string()).collect::<Vec<_>>());
                o["arg_types"] = json!(u.arg_types.iter().map(|t| format!("{}", t)).collect::<Vec<_>>());
                o["code"] = json!(u.code);
                o["ast"] = ast::parse_code(&u.code);
            }
            r::ActionFnDefnKind::Inline(inl) => {
                o["kind"] = json!("inline");
                o["action"] = json!(inl.action.index());
                let syms: Vec<Value> = inl
                    .symbols
                    .iter()
                    .map(|s| match s {
                        r::InlinedSymbol::Original(s) => json!({"orig": sym_json(s)}),
                        r::InlinedSymbol::Inlined(a, ss) => {
                            json!({"inl": a.index(), "syms": ss.iter().map(sym_json).collect::<Vec<_>>()})
                        }
                    })
                    .collect();
                o["symbols"] = json!(syms);
            }
            r::ActionFnDefnKind::Lookaround(l) => {
                o["kind"] = json!(match l {
                    r::LookaroundActionFnDefn::Lookahead => "lookahead",
                    r::LookaroundActionFnDefn::Lookbehind => "lookbehind",
                });
            }
        }
        actions.push(o);
    }
    let mut nts = Vec::new();
    for (name, data) in g.nonterminals.iter() {
        let mut prods = Vec::new();
        for (k, p) in data.productions.iter().enumerate() {
            prods.push(json!({
                "k": k,
                "symbols": p.symbols.iter().map(sym_json).collect::<Vec<_>>(),
                "action": p.action.index(),
                "span": [p.span.0, p.span.1],
                "line": line_of(&text, p.span.0),
                "text": text.get(p.span.0..p.span.1).unwrap_or(""),
            }));
        }
        let ty = g.types.lookup_nonterminal_type(name).map(|t| format!("{}", t)).unwrap_or_default();
        nts.push(json!({
            "name": format!("{}", name),
            "line": line_of(&text, data.span.0),
            "type": ty,
            "annotations": data.annotations.iter().map(|a| a.id.to_string()).collect::<Vec<_>>(),
            "productions": prods,
        }));
    }
    let lex: Vec<Value> = lexer_entries(&g)
        .iter()
        .enumerate()
        .map(|(i, (re, skip, term, kind))| {
            json!({"idx": i, "regex": re, "skip": skip, "kind": kind,
                   "terminal": term.as_ref().map(term_name)})
        })
        .collect();
    let out = json!({
        "file": path,
        "params": g.parameters.iter().map(|p| json!({"name": p.name.to_string(), "ty": format!("{}", p.ty)})).collect::<Vec<_>>(),
        "start": g.start_nonterminals.iter().map(|(u, a)| json!([format!("{}", u), format!("{}", a)])).collect::<Vec<_>>(),
        "uses": g.uses,
        "terminals": g.terminals.all.iter().map(term_name).collect::<Vec<_>>(),
        "lexer": lex,
        "actions": actions,
        "nonterminals": nts,
        "lalr": g.algorithm.lalr,
    });
    println!("{}", serde_json::to_string(&out).unwrap());
}

fn parse_lines(path: &str) {
    let (_s, _ft, g, _tls) = load(path);
    let _lr1_tls = lr1::Lr1Tls::install(g.terminals.clone());
    let (user_start, start_nt) = {
        let (u, a) = g.start_nonterminals.iter().next().expect("start");
        (format!("{}", u), a.clone())
    };
    let states = match lr1::build_states(&g, start_nt.clone()) {
        Ok(s) => s,
        Err(_) => {
            println!("{}", json!({"fatal": "LR(1) construction failed (conflicts)"}));
            std::process::exit(3);
        }
    };
    let entries = lexer_entries(&g);
    let builder = lalrpop_util::lexer::MatcherBuilder::new(entries.iter().map(|e| (e.0.as_str(), e.1))).expect("regex");
    let mut inp = String::new();
    std::io::stdin().read_to_string(&mut inp).unwrap();
    let lines: Vec<String> = serde_json::from_str(&inp).expect("stdin must be a JSON array of strings");
    let mut results = Vec::new();
    // production identity: (nonterminal, index within nonterminal)
    let prod_id = |p: &r::Production, pos: usize| -> Value {
        let data = &g.nonterminals[&p.nonterminal];
        let k = data.productions.iter().position(|q| std::ptr::eq(q, p) || q == p).unwrap_or(usize::MAX);
        json!([format!("{}", p.nonterminal), k, p.action.index(), pos, p.symbols.len()])
    };
    for line in lines.iter() {
        let mut toks: Vec<(TerminalString, String, usize, usize)> = Vec::new();
        let mut lex_err: Option<usize> = None;
        let m = builder.matcher::<&'static str>(line);
        for t in m {
            match t {
                Ok((lo, lalrpop_util::lexer::Token(i, s), hi)) => {
                    let term = entries[i].2.clone().expect("non-skip");
                    toks.push((term, s.to_string(), lo, hi));
                }
                Err(e) => {
                    lex_err = Some(match e {
                        lalrpop_util::ParseError::InvalidToken { location } => location,
                        _ => 0,
                    });
                    break;
                }
            }
        }
        let tok_json: Vec<Value> = toks.iter().map(|(t, s, lo, hi)| json!([term_name(t), s, lo, hi])).collect();
        if let Some(loc) = lex_err {
            results.push(json!({"ok": false, "stage": "lex", "at": loc, "tokens": tok_json}));
            continue;
        }
        // table-driven LR(1)
        let mut stack: Vec<usize> = vec![0];
        let mut reds: Vec<Value> = Vec::new();
        let mut pos = 0usize;
        let mut verdict: Option<Value> = None;
        'outer: loop {
            let st = &states[*stack.last().unwrap()];
            let la: LToken = if pos < toks.len() { LToken::Terminal(toks[pos].0.clone()) } else { LToken::EOF };
            if pos < toks.len() {
                if let Some(nx) = st.shifts.get(&toks[pos].0) {
                    stack.push(nx.0);
                    pos += 1;
                    continue;
                }
            }
            let mut reduced = false;
            for (set, prod) in st.reductions.iter() {
                if set.contains(&la) {
                    reds.push(prod_id(prod, pos));
                    let n = prod.symbols.len();
                    for _ in 0..n {
                        stack.pop();
                    }
                    if prod.nonterminal == start_nt {
                        verdict = Some(json!({"ok": true}));
                        break 'outer;
                    }
                    let top = &states[*stack.last().unwrap()];
                    match top.gotos.get(&prod.nonterminal) {
                        Some(nx) => stack.push(nx.0),
                        None => {
                            verdict = Some(json!({"ok": false, "stage": "goto"}));
                            break 'outer;
                        }
                    }
                    reduced = true;
                    break;
                }
            }
            if !reduced {
                let at = if pos < toks.len() { json!(pos) } else { json!("eof") };
                let expected: Vec<String> = st.shifts.keys().map(term_name).collect();
                verdict = Some(json!({"ok": false, "stage": "parse", "at_token": at, "expected": expected}));
                break;
            }
        }
        let mut v = verdict.unwrap();
        v["tokens"] = json!(tok_json);
        v["reductions"] = json!(reds);
        results.push(v);
    }
    println!("{}", serde_json::to_string(&json!({"start": user_start, "n_states": states.len(), "results": results})).unwrap());
}

fn main() {
    let args: Vec<String> = std::env::args().collect();
    if args.len() < 2 {
        eprintln!("usage: gram dump|parse <file.lalrpop> | gram ast");
        std::process::exit(2);
    }
    match args[1].as_str() {
        "dump" => dump(&args[2]),
        "parse" => parse_lines(&args[2]),
        "ast" => {
            let mut inp = String::new();
            std::io::stdin().read_to_string(&mut inp).unwrap();
            println!("{}", serde_json::to_string(&ast::parse_code(&inp)).unwrap());
        }
        "rustfns" => {
            let mut all = Vec::new();
            for f in &args[2..] {
                if let Ok(src) = std::fs::read_to_string(f) {
                    all.extend(ast::rust_fns(f, &src));
                }
            }
            println!("{}", serde_json::to_string(&all).unwrap());
        }
        _ => {
            eprintln!("unknown subcommand");
            std::process::exit(2);
        }
    }
}
