#!/bin/sh
# Builds the two extractors from files on disk only (offline).
#   tools/gram      stable toolchain; vendored lalrpop 0.19.12 (modules made public), syn, serde_json
#   tools/mirfacts  nightly toolchain; rustc_private driver, no cargo dependencies
set -e
cd "$(dirname "$0")"
export CARGO_NET_OFFLINE=true
mkdir -p tools/target evidence
( cd tools/gram && CARGO_TARGET_DIR=../target/gram cargo build --offline --quiet )
( cd tools/mirfacts && CARGO_TARGET_DIR=../target/mirfacts cargo +nightly build --offline --quiet )
test -x tools/target/gram/debug/gram
test -x tools/target/mirfacts/debug/mirfacts
if [ "$1" = "--selftest" ]; then
  python3 analysis/selftest.py
fi
echo "setup ok"
